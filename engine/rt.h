#include <stdint.h>
#include <stddef.h>
#include <string.h>
#include <stdlib.h>
extern int __vf_exc; extern char* __vf_exc_obj; extern char* __vf_exc_type;
int __vf_type_matches(char* thrown, char* target);
void __vf_trap(void); void __vf_ubsan(uint8_t k); void __vf_unreachable(void);
#define __vf_ub_if(c,msg) __CPROVER_assert(!(c), "UB: " msg)
void __vf_memcpy(char*d, char*s, uint64_t n); void __vf_memmove(char*d, char*s, uint64_t n); void __vf_memset(char*d, uint8_t c, uint64_t n);
uint64_t __vf_ctpop(uint64_t x); uint64_t __vf_ctlz(uint64_t x, int w); uint64_t __vf_cttz(uint64_t x, int w);
void __vf_global_ctors(void);
void __vf_str_empty(char* sret);
static inline uint64_t __vf_ptrdiff(char* a, char* b){ __CPROVER_assert(__CPROVER_same_object(a,b), "UB: pointer difference across objects"); return (uint64_t)__CPROVER_POINTER_OFFSET(a) - (uint64_t)__CPROVER_POINTER_OFFSET(b); }
/* total order on pointers: objects are laid out in object-id order, never overlapping */
static inline unsigned __int128 __vf_ptr_key(char* p){ return (((unsigned __int128)__CPROVER_POINTER_OBJECT(p))<<64) | (uint64_t)__CPROVER_POINTER_OFFSET(p); }
uint64_t __vf_undef(void);
