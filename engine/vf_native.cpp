// Native side of the harness interface (see harness/vf.h): the same harness source is compiled with
// clang++ -fsanitize=address,undefined against the real OP2Utility sources, the real <fstream> and the real
// XFile.cpp; the nondeterministic choices are read from the replay file that the driver extracted from a CBMC
// trace (environment variable VF_REPLAY: one unsigned integer per line, in draw order).
#include <cstdint>
#include <cstdio>
#include <cstdlib>
#include <cstring>
#include <string>
#include <vector>
#include <new>
#include <unistd.h>
#include <fcntl.h>
#include <sys/stat.h>
#include <sys/types.h>

#ifndef VFS_N
#define VFS_N 4
#endif
#ifndef VFS_CAP
#define VFS_CAP 128
#endif
static std::vector<uint64_t> g_vals; static size_t g_next; static bool g_exhausted;
static void load() {
  static bool done = false; if (done) return; done = true;
  const char* f = getenv("VF_REPLAY"); if (!f) return;
  FILE* fp = fopen(f, "r"); if (!fp) { fprintf(stderr, "VF-NO-REPLAY-FILE\n"); _exit(4); }
  unsigned long long v; while (fscanf(fp, "%llu", &v) == 1) g_vals.push_back(v);
  fclose(fp);
}
static uint64_t draw() { load(); if (g_next < g_vals.size()) return g_vals[g_next++]; g_exhausted = true; return 0; }
static void finish(const char* tag, int code) {
  printf("%s\n", tag); if (g_exhausted) printf("VF-REPLAY-EXHAUSTED\n");
  fflush(stdout); fflush(stderr); _exit(code);
}
struct vfile { const char* name; int exists; uint64_t size; uint8_t data[VFS_CAP]; int committed_exists; };
static vfile g_files[VFS_N]; static bool g_committed;
static const time_t OLD = 1000000000;
static void sync_all();
extern "C" {
  void vf_assert(int c, const char* what) {
    if (c) return;
    if (strcmp(what, "WITNESS") == 0) finish("VF-WITNESS", 0);
    printf("VF-ASSERT-FAIL: %s\n", what); finish("VF-FAIL", 1);
  }
  void vf_assume(int c) { if (!c) finish("VF-ASSUME-FAIL", 3); }
  uint8_t vf_nondet_u8(void) { return (uint8_t)draw(); }
  uint16_t vf_nondet_u16(void) { return (uint16_t)draw(); }
  uint32_t vf_nondet_u32(void) { return (uint32_t)draw(); }
  uint64_t vf_nondet_u64(void) { return draw(); }
  void vf_havoc(void* p, uint64_t n) { for (uint64_t i = 0; i < n; i++) ((uint8_t*)p)[i] = (uint8_t)draw(); }
  void vf_end(void) { finish("VF-END", 0); }
  uint64_t vf_buffer_room(const void*) { return UINT64_MAX; }
  // overwrite the part of the stack the next calls will use with a pattern (C18: "automatic-variable fill pattern")
  __attribute__((noinline)) void vf_scribble_stack(uint8_t pattern) { volatile unsigned char junk[32768]; for (unsigned i = 0; i < sizeof junk; i++) junk[i] = (unsigned char)(pattern + i * 7); }

  uint8_t* vfs_data(int i) { return g_files[i].data; }
  void vfs_set(int i, const char* name, int exists, uint64_t size) { g_files[i].name = name; g_files[i].exists = exists; g_files[i].size = size; }
  void vfs_commit(void) {
    const char* dir = getenv("VF_SCRATCH");
    if (!dir || chdir(dir) != 0) { fprintf(stderr, "VF-NO-SCRATCH\n"); _exit(4); }
    for (int i = 0; i < VFS_N; i++) {
      vfile& f = g_files[i]; if (!f.name) continue;
      f.committed_exists = f.exists;
      if (f.exists == 2) { mkdir(f.name, 0755); continue; }
      if (!f.exists) { unlink(f.name); continue; }
      int fd = open(f.name, O_WRONLY | O_CREAT | O_TRUNC, 0644);
      uint64_t n = f.size < VFS_CAP ? f.size : VFS_CAP;
      if (write(fd, f.data, n) != (ssize_t)n) _exit(4);
      if (f.size > VFS_CAP && ftruncate(fd, (off_t)f.size) != 0) { fprintf(stderr, "VF-SPARSE-UNSUPPORTED\n"); _exit(4); }
      close(fd);
      struct timespec ts[2] = {{OLD, 0}, {OLD, 0}}; utimensat(AT_FDCWD, f.name, ts, 0);
    }
    g_committed = true;
  }
  void vfs_sync(void) { sync_all(); }
  uint64_t vfs_get_size(int i) { sync_all(); return g_files[i].size; }
  int vfs_exists(int i) { sync_all(); return g_files[i].exists; }
  int vfs_touched_file(int i) {
    if (!g_committed) return 0;
    vfile& f = g_files[i]; if (!f.name) return 0;
    struct stat st; bool ex = stat(f.name, &st) == 0;
    if (!ex) return f.committed_exists ? 1 : 0;
    if (!f.committed_exists) return 1;
    if (S_ISDIR(st.st_mode)) return 0;
    return st.st_mtim.tv_sec != OLD;
  }
  int vfs_touched(void) { for (int i = 0; i < VFS_N; i++) if (vfs_touched_file(i)) return 1; return 0; }
  int vfs_open_read(const char* name, uint64_t len) { std::string n(name, len); struct stat st; return stat(n.c_str(), &st) == 0 ? 0 : -1; }
}
static void sync_all() {
  if (!g_committed) return;
  for (int i = 0; i < VFS_N; i++) {
    vfile& f = g_files[i]; if (!f.name) continue;
    struct stat st;
    if (stat(f.name, &st) != 0) { f.exists = 0; f.size = 0; continue; }
    if (S_ISDIR(st.st_mode)) { f.exists = 2; continue; }
    f.exists = 1; f.size = (uint64_t)st.st_size;
    int fd = open(f.name, O_RDONLY); if (fd < 0) continue;
    uint64_t n = f.size < VFS_CAP ? f.size : VFS_CAP;
    if (read(fd, f.data, n) < 0) {}
    close(fd);
  }
}
#ifdef VF_MAX_ALLOC
// the same allocation bound as the CBMC runtime: larger requests fail with std::bad_alloc
// (natively the bound is never below 64 KiB: the real iostreams allocate their own buffers; and it only applies
// while the harness entry runs)
static bool g_armed;
#define VF_NATIVE_MAX_ALLOC ((VF_MAX_ALLOC) < 65536 ? 65536 : (VF_MAX_ALLOC))
// fresh heap memory holds garbage that differs from one allocation to the next (C18: outputs must not depend on it)
static unsigned g_alloc_counter;
void* operator new(std::size_t n) {
  if (g_armed && n > VF_NATIVE_MAX_ALLOC) throw std::bad_alloc();
  void* p = malloc(n ? n : 1); if (!p) throw std::bad_alloc();
  unsigned seed = ++g_alloc_counter * 2654435761u;
  for (std::size_t i = 0; i < n && i < 4096; i++) ((unsigned char*)p)[i] = (unsigned char)((seed >> (8 * (i & 3))) + 31 * i);
  return p;
}
void* operator new[](std::size_t n) { return operator new(n); }
void operator delete(void* p) noexcept { free(p); }
void operator delete[](void* p) noexcept { free(p); }
void operator delete(void* p, std::size_t) noexcept { free(p); }
void operator delete[](void* p, std::size_t) noexcept { free(p); }
#endif
#undef __builtin_abs
#undef __builtin_labs
#undef __builtin_llabs
#include <climits>
extern "C" {
  int vf_checked_abs(int x) { if (x == INT_MIN) { printf("VF-ASSERT-FAIL: UB: abs of INT_MIN\n"); finish("VF-FAIL", 1); } return x < 0 ? -x : x; }
  long vf_checked_labs(long x) { if (x == LONG_MIN) { printf("VF-ASSERT-FAIL: UB: labs of LONG_MIN\n"); finish("VF-FAIL", 1); } return x < 0 ? -x : x; }
  // with -fno-builtin-abs the C library functions are called as such: these definitions take precedence over libc's
  int abs(int x) noexcept { return vf_checked_abs(x); }
  long labs(long x) noexcept { return vf_checked_labs(x); }
  long long llabs(long long x) noexcept { return vf_checked_llabs(x); }
  long long vf_checked_llabs(long long x) { if (x == LLONG_MIN) { printf("VF-ASSERT-FAIL: UB: llabs of LLONG_MIN\n"); finish("VF-FAIL", 1); } return x < 0 ? -x : x; }
}
extern "C" void VF_ENTRY(void);
#ifndef VF_MAX_ALLOC
static bool g_armed;
#endif
int main() { load(); g_armed = true; VF_ENTRY(); g_armed = false; finish("VF-RETURN", 0); }
