// ir2c: LLVM-14 IR -> C for CBMC.  Prototype.
// Every LLVM value becomes a C local; pointers are char*; memory is accessed through casts.
// Exceptions are lowered to a pending flag (__vf_exc) checked after every may-throw call.
#include "llvm/IR/LLVMContext.h"
#include "llvm/IR/Module.h"
#include "llvm/IR/Instructions.h"
#include "llvm/IR/IntrinsicInst.h"
#include "llvm/IR/Constants.h"
#include "llvm/IR/DataLayout.h"
#include "llvm/IR/Operator.h"
#include "llvm/IR/GetElementPtrTypeIterator.h"
#include "llvm/IR/CFG.h"
#include "llvm/IRReader/IRReader.h"
#include "llvm/Support/SourceMgr.h"
#include "llvm/Support/raw_ostream.h"
#include <map>
#include <set>
#include <string>
#include <vector>
#include <sstream>
#include <fstream>
#include <functional>
using namespace llvm;

static const DataLayout *DL;
static Module *Mod;
static std::set<std::string> Stubbed;      // defined functions whose body is replaced by the runtime model
static std::set<std::string> RtGlobals;
static std::map<std::string,std::string> Renames; // defined function emitted under another name (runtime wraps it)
static std::map<std::string,std::string> Redirects; // calls to a defined function go to a harness-provided replacement
static std::map<std::string,std::string> MemcpyHooks; // variable-length memcpy intrinsics inside the named caller become calls of a harness function (index contract instead of copying)
static std::vector<std::string> KeepIn; // callers (name prefixes) inside which the --emptystr cut does not apply
static bool UndefNondet = false; // translate IR undef operands as fresh nondeterministic values
static std::vector<std::string> EmptyStrPrefixes; // defined functions returning std::string by sret that are cut to return ""
static bool isEmptyStr(const Function &F) { if (F.isDeclaration() || F.arg_size()==0 || !F.hasParamAttribute(0, Attribute::StructRet)) return false; for (auto &p : EmptyStrPrefixes) if (F.getName().startswith(p)) return true; return false; }    // external globals provided by rt.c
static bool die_on_unsupported = true;
static bool keepIn(const Function *caller) { for (auto &p : KeepIn) if (caller->getName().startswith(p)) return true; return false; }
// a call that is cut to "returns the empty string": callee matches --emptystr and the caller is not whitelisted
static bool cutCall(const CallBase &CB) { const Function *CF = CB.getCalledFunction(); return CF && isEmptyStr(*CF) && !keepIn(CB.getFunction()); }

[[noreturn]] static void fail(const std::string &m) { errs() << "ir2c: unsupported: " << m << "\n"; exit(2); }

static std::string san(StringRef n) {
  std::string r;
  for (char c : n) r += (isalnum((unsigned char)c) || c == '_') ? c : '_';
  if (r.empty() || isdigit((unsigned char)r[0])) r = "_" + r;
  return r;
}

// ---------- types ----------
static std::map<Type *, std::string> AggName;
static std::vector<std::string> AggDefs; // in dependency order
static std::string ctype(Type *T);

static std::string intty(unsigned w) {
  if (w <= 8) return "uint8_t";
  if (w <= 16) return "uint16_t";
  if (w <= 32) return "uint32_t";
  if (w <= 64) return "uint64_t";
  if (w <= 128) return "unsigned __int128";
  fail("int width " + std::to_string(w));
}
static std::string sintty(unsigned w) {
  if (w <= 8) return "int8_t";
  if (w <= 16) return "int16_t";
  if (w <= 32) return "int32_t";
  if (w <= 64) return "int64_t";
  if (w <= 128) return "__int128";
  fail("int width " + std::to_string(w));
}
static unsigned cwidth(unsigned w) { return w <= 8 ? 8 : w <= 16 ? 16 : w <= 32 ? 32 : w <= 64 ? 64 : 128; }

static std::string aggtype(Type *T) {
  auto it = AggName.find(T);
  if (it != AggName.end()) return it->second;
  std::string name;
  std::ostringstream def;
  if (auto *ST = dyn_cast<StructType>(T)) {
    static int lit = 0;
    name = ST->hasName() ? "struct S_" + san(ST->getName()) : "struct L_" + std::to_string(lit++);
    AggName[T] = name;
    if (ST->isOpaque()) { AggDefs.push_back(name + ";"); return name; }
    std::vector<std::string> fields;
    for (unsigned i = 0; i < ST->getNumElements(); i++) {
      Type *E = ST->getElementType(i);
      if (DL->getTypeAllocSize(E) == 0) continue; // zero-size members are dropped
      fields.push_back(ctype(E) + " f" + std::to_string(i) + ";");
    }
    def << name << " {";
    for (auto &f : fields) def << " " << f;
    if (fields.empty()) def << " char __empty[0];";
    def << " }" << (ST->isPacked() ? " __attribute__((packed))" : "") << ";";
    uint64_t sz = DL->getTypeAllocSize(T);
    if (sz) def << " _Static_assert(sizeof(" << name << ")==" << sz << ",\"layout " << name << "\");";
  } else if (auto *AT = dyn_cast<ArrayType>(T)) {
    static int arr = 0;
    name = "struct A_" + std::to_string(arr++);
    AggName[T] = name;
    std::string et = ctype(AT->getElementType());
    def << name << " { " << et << " e[" << AT->getNumElements() << "]; };";
  } else
    fail("aggtype");
  AggDefs.push_back(def.str());
  return name;
}

static std::string ctype(Type *T) {
  if (T->isVoidTy()) return "void";
  if (T->isIntegerTy()) return intty(T->getIntegerBitWidth());
  if (T->isPointerTy()) return "char*";
  if (T->isFloatTy()) return "float";
  if (T->isDoubleTy()) return "double";
  if (T->isX86_FP80Ty()) return "long double";
  if (T->isStructTy() || T->isArrayTy()) return aggtype(T);
  std::string s; raw_string_ostream os(s); T->print(os);
  fail("type " + os.str());
}

// ---------- constants ----------
static const char *LibcNames[] = {"strlen","memcmp","bcmp","memchr","strcmp","strncpy","strncmp","toupper","tolower","abort","free","malloc","memcpy","memmove","memset","strchr","abs","labs", nullptr};
static bool isLibc(StringRef n) { for (auto p = LibcNames; *p; ++p) if (n == *p) return true; return false; }
static std::string gname(const GlobalValue *G);
static std::string defname(const Function *F) { auto it = Renames.find(F->getName().str()); return it == Renames.end() ? gname(F) : it->second; }
static std::string gname(const GlobalValue *G) { if (isa<Function>(G)) { auto it = Redirects.find(G->getName().str()); if (it != Redirects.end()) return it->second; if (isLibc(G->getName())) return "__vf_libc_" + G->getName().str(); } return san(G->getName()); }

static std::string constExpr(const Constant *C);

static std::string intLit(const APInt &v) {
  unsigned w = v.getBitWidth();
  if (w <= 64) {
    std::string s = std::to_string(v.getZExtValue()) + "ULL";
    return "((" + intty(w) + ")" + s + ")";
  }
  uint64_t lo = v.extractBitsAsZExtValue(64, 0), hi = v.extractBitsAsZExtValue(w - 64, 64);
  return "((((unsigned __int128)" + std::to_string(hi) + "ULL)<<64)|" + std::to_string(lo) + "ULL)";
}

// initializer in brace form for storage type T
static std::string constInit(const Constant *C) {
  Type *T = C->getType();
  if (isa<ConstantAggregateZero>(C) || isa<UndefValue>(C)) {
    if (T->isStructTy() || T->isArrayTy()) return "{0}";
    if (T->isPointerTy()) return "(char*)0";
    return "0";
  }
  if (auto *CS = dyn_cast<ConstantStruct>(C)) {
    std::string s = "{";
    bool any = false;
    for (unsigned i = 0; i < CS->getNumOperands(); i++) {
      if (DL->getTypeAllocSize(CS->getOperand(i)->getType()) == 0) continue;
      s += (any ? ", " : " ") + constInit(CS->getOperand(i));
      any = true;
    }
    if (!any) s += "0";
    return s + " }";
  }
  if (auto *CA = dyn_cast<ConstantArray>(C)) {
    std::string s = "{ {";
    for (unsigned i = 0; i < CA->getNumOperands(); i++) s += (i ? ", " : " ") + constInit(CA->getOperand(i));
    return s + " } }";
  }
  if (auto *CD = dyn_cast<ConstantDataArray>(C)) {
    std::string s = "{ {";
    for (unsigned i = 0; i < CD->getNumElements(); i++) s += (i ? ", " : " ") + constInit(CD->getElementAsConstant(i));
    return s + " } }";
  }
  return constExpr(C);
}

static std::string constExpr(const Constant *C) {
  if (auto *CI = dyn_cast<ConstantInt>(C)) return intLit(CI->getValue());
  if (isa<ConstantPointerNull>(C)) return "((char*)0)";
  if (isa<UndefValue>(C)) {
    Type *T = C->getType();
    if (T->isIntegerTy()) return "((" + ctype(T) + ")0)";
    if (T->isPointerTy()) return "((char*)0)";
    if (T->isStructTy() || T->isArrayTy()) return "((" + ctype(T) + "){0})";
    return "0";
  }
  if (auto *G = dyn_cast<GlobalValue>(C)) return "((char*)&" + gname(G) + ")";
  if (auto *CF = dyn_cast<ConstantFP>(C)) {
    SmallString<32> s; CF->getValueAPF().toString(s);
    return "(" + std::string(s.c_str()) + ")";
  }
  if (isa<ConstantAggregateZero>(C) || isa<ConstantStruct>(C) || isa<ConstantArray>(C) || isa<ConstantDataArray>(C))
    return "((" + ctype(C->getType()) + ")" + constInit(C) + ")";
  if (auto *CE = dyn_cast<ConstantExpr>(C)) {
    switch (CE->getOpcode()) {
    case Instruction::BitCast:
    case Instruction::AddrSpaceCast:
      if (CE->getType()->isPointerTy()) return constExpr(CE->getOperand(0));
      break;
    case Instruction::GetElementPtr: {
      APInt off(64, 0);
      auto *GEP = cast<GEPOperator>(CE);
      if (!GEP->accumulateConstantOffset(*DL, off)) fail("non-constant constexpr gep");
      return "(" + constExpr(CE->getOperand(0)) + "+" + std::to_string(off.getSExtValue()) + "LL)";
    }
    case Instruction::PtrToInt:
      return "((" + ctype(CE->getType()) + ")(uint64_t)" + constExpr(CE->getOperand(0)) + ")";
    case Instruction::IntToPtr:
      return "((char*)(uint64_t)" + constExpr(CE->getOperand(0)) + ")";
    case Instruction::Sub:
    case Instruction::Add: {
      std::string op = CE->getOpcode() == Instruction::Add ? "+" : "-";
      return "((" + ctype(CE->getType()) + ")(" + constExpr(CE->getOperand(0)) + op + constExpr(CE->getOperand(1)) + "))";
    }
    default: break;
    }
    std::string s; raw_string_ostream os(s); CE->print(os);
    fail("constexpr " + os.str());
  }
  std::string s; raw_string_ostream os(s); C->print(os);
  fail("constant " + os.str());
}

// ---------- function translation ----------
struct FnCtx {
  const Function *F;
  std::map<const Value *, std::string> names;
  std::map<const BasicBlock *, std::string> labels;
  std::ostringstream decls, body;
  int tmp = 0;
};

static std::string maskOf(unsigned w) {
  if (w == 8 || w == 16 || w == 32 || w == 64 || w == 128) return "";
  if (w < 64) return std::to_string((1ULL << w) - 1) + "ULL";
  fail("mask width " + std::to_string(w));
}
static std::string masked(const std::string &e, unsigned w) {
  std::string m = maskOf(w);
  std::string t = intty(w);
  if (m.empty()) return "((" + t + ")(" + e + "))";
  return "((" + t + ")((" + e + ")&" + m + "))";
}
// signed view of value expression of width w
static std::string sview(const std::string &e, unsigned w) {
  unsigned cw = cwidth(w);
  if (cw == w) return "((" + sintty(w) + ")(" + e + "))";
  // sign extend from w to cw
  return "((" + sintty(cw) + ")(((" + sintty(cw) + ")((" + intty(cw) + ")(" + e + ")<<" + std::to_string(cw - w) + "))>>" + std::to_string(cw - w) + "))";
}

static std::string val(FnCtx &X, const Value *V) {
  if (UndefNondet && isa<UndefValue>(V) && V->getType()->isIntegerTy()) return "((" + ctype(V->getType()) + ")__vf_undef())";
  if (auto *C = dyn_cast<Constant>(V)) return constExpr(C);
  auto it = X.names.find(V);
  if (it == X.names.end()) { std::string s; raw_string_ostream os(s); V->print(os); fail("unnamed value " + os.str()); }
  return it->second;
}

static std::string zeroOf(Type *T) {
  if (T->isVoidTy()) return "";
  if (T->isStructTy() || T->isArrayTy()) return "(" + ctype(T) + "){0}";
  if (T->isPointerTy()) return "(char*)0";
  return "0";
}

static std::map<const Constant *, int> TypeIds; // typeinfo -> selector id
static int typeIdOf(const Constant *C) {
  C = cast<Constant>(C->stripPointerCasts());
  auto it = TypeIds.find(C);
  if (it != TypeIds.end()) return it->second;
  int id = TypeIds.size() + 1;
  TypeIds[C] = id;
  return id;
}

static bool mayThrow(const CallBase &CB) {
  if (CB.doesNotThrow()) return false;
  if (auto *F = CB.getCalledFunction()) {
    if (F->isIntrinsic()) return false;
    StringRef n = F->getName();
    if (n.startswith("vf_") || n.startswith("__vf_")) return false;
  }
  return true;
}

static std::string fnProtoType(FunctionType *FT) {
  std::string s = ctype(FT->getReturnType()) + "(*)(";
  for (unsigned i = 0; i < FT->getNumParams(); i++) s += (i ? "," : "") + ctype(FT->getParamType(i));
  if (FT->isVarArg()) s += FT->getNumParams() ? ",..." : "";
  if (FT->getNumParams() == 0 && !FT->isVarArg()) s += "void";
  return s + ")";
}

static void emitPhiCopies(FnCtx &X, const BasicBlock *from, const BasicBlock *to, std::ostream &os) {
  std::vector<std::pair<std::string, std::string>> copies;
  for (auto &I : *to) {
    auto *P = dyn_cast<PHINode>(&I);
    if (!P) break;
    const Value *in = P->getIncomingValueForBlock(from);
    if (isa<UndefValue>(in) && !(UndefNondet && in->getType()->isIntegerTy())) continue;
    copies.push_back({X.names[P], val(X, in)});
  }
  if (copies.empty()) return;
  if (copies.size() == 1) { os << copies[0].first << " = " << copies[0].second << "; "; return; }
  os << "{ ";
  int k = 0;
  for (auto &c : copies) {
    const PHINode *P = nullptr;
    (void)P;
    os << "__typeof__(" << c.first << ") __t" << k++ << " = " << c.second << "; ";
  }
  k = 0;
  for (auto &c : copies) os << c.first << " = __t" << k++ << "; ";
  os << "} ";
}

static std::string gotoEdge(FnCtx &X, const BasicBlock *from, const BasicBlock *to) {
  std::ostringstream os;
  emitPhiCopies(X, from, to, os);
  os << "goto " << X.labels[to] << ";";
  return os.str();
}

static std::string gepExpr(FnCtx &X, const GEPOperator *G) {
  std::string e = val(X, G->getPointerOperand());
  int64_t constOff = 0;
  std::string dyn;
  for (auto GTI = gep_type_begin(G), E = gep_type_end(G); GTI != E; ++GTI) {
    const Value *idx = GTI.getOperand();
    if (StructType *ST = GTI.getStructTypeOrNull()) {
      unsigned f = cast<ConstantInt>(idx)->getZExtValue();
      constOff += DL->getStructLayout(ST)->getElementOffset(f);
    } else {
      uint64_t sz = DL->getTypeAllocSize(GTI.getIndexedType());
      if (auto *CI = dyn_cast<ConstantInt>(idx))
        constOff += CI->getSExtValue() * (int64_t)sz;
      else {
        unsigned w = idx->getType()->getIntegerBitWidth();
        dyn += "+(int64_t)" + sview(val(X, idx), w) + "*" + std::to_string(sz) + "LL";
      }
    }
  }
  return "(" + e + "+(" + std::to_string(constOff) + "LL" + dyn + "))";
}

static std::string strLiteralOf(const Value *V) {
  // if V is a pointer to a constant C string global, return it (for assertion descriptions)
  auto *GV = dyn_cast<GlobalVariable>(V->stripPointerCasts());
  if (!GV || !GV->hasInitializer()) return "";
  auto *CD = dyn_cast<ConstantDataArray>(GV->getInitializer());
  if (!CD || !CD->isCString()) return "";
  std::string s;
  for (char c : CD->getAsCString()) { if (c == '"' || c == '\\') s += '\\'; if (c >= 32 && c < 127) s += c; }
  return s;
}

static void emitCall(FnCtx &X, const CallBase &CB, std::ostream &os, const std::string &unwindAction) {
  const Function *CF = CB.getCalledFunction();
  std::string res = CB.getType()->isVoidTy() ? "" : X.names[&CB] + " = ";
  auto arg = [&](unsigned i) { return val(X, CB.getArgOperand(i)); };
  Type *RT = CB.getType();
  unsigned w = RT->isIntegerTy() ? RT->getIntegerBitWidth() : 0;
  if (CF && CF->isIntrinsic()) {
    switch (CF->getIntrinsicID()) {
    case Intrinsic::lifetime_start: case Intrinsic::lifetime_end: case Intrinsic::dbg_declare:
    case Intrinsic::dbg_value: case Intrinsic::dbg_label: case Intrinsic::assume:
    case Intrinsic::experimental_noalias_scope_decl: case Intrinsic::invariant_start:
    case Intrinsic::invariant_end: case Intrinsic::donothing: case Intrinsic::prefetch:
      return;
    case Intrinsic::memcpy: case Intrinsic::memcpy_inline:
      { auto hit = MemcpyHooks.find(CB.getFunction()->getName().str());
        if (hit != MemcpyHooks.end()) { os << hit->second << "((char*)" << arg(0) << ",(char*)" << arg(1) << ",(uint64_t)" << arg(2) << ");"; return; } }
      if (auto *CN = dyn_cast<ConstantInt>(CB.getArgOperand(2))) if (CN->getZExtValue() <= 8192) {
        uint64_t n = CN->getZExtValue(), o = 0;
        os << "{ char* __d=" << arg(0) << "; char* __s=" << arg(1) << "; ";
        for (unsigned c : {8u, 4u, 2u, 1u}) while (n - o >= c) { os << "*(uint" << c * 8 << "_t*)(__d+" << o << ")=*(uint" << c * 8 << "_t*)(__s+" << o << "); "; o += c; }
        os << "}"; return;
      }
      os << "{ char* __d=" << arg(0) << "; char* __s=" << arg(1) << "; uint64_t __n=" << arg(2) << "; for(uint64_t __i=0;__i<__n;__i++) __d[__i]=__s[__i]; }"; return;
    case Intrinsic::memmove:
      os << "__vf_memmove(" << arg(0) << "," << arg(1) << ",(uint64_t)" << arg(2) << ");"; return;
    case Intrinsic::memset:
      if (auto *CN = dyn_cast<ConstantInt>(CB.getArgOperand(2))) if (CN->getZExtValue() <= 8192) {
        uint64_t n = CN->getZExtValue(), o = 0;
        os << "{ char* __d=" << arg(0) << "; uint64_t __c=0x0101010101010101ULL*(uint8_t)" << arg(1) << "; ";
        for (unsigned c : {8u, 4u, 2u, 1u}) while (n - o >= c) { os << "*(uint" << c * 8 << "_t*)(__d+" << o << ")=(uint" << c * 8 << "_t)__c; "; o += c; }
        os << "}"; return;
      }
      os << "{ char* __d=" << arg(0) << "; uint8_t __c=" << arg(1) << "; uint64_t __n=" << arg(2) << "; for(uint64_t __i=0;__i<__n;__i++) __d[__i]=__c; }"; return;
    case Intrinsic::trap: os << "__vf_trap();"; return;
    case Intrinsic::ubsantrap: os << "__vf_ubsan(" << arg(0) << ");"; return;
    case Intrinsic::eh_typeid_for:
      os << res << typeIdOf(cast<Constant>(CB.getArgOperand(0))) << ";"; return;
    case Intrinsic::expect: case Intrinsic::launder_invariant_group: case Intrinsic::strip_invariant_group:
      os << res << arg(0) << ";"; return;
    case Intrinsic::abs:
      if (cast<ConstantInt>(CB.getArgOperand(1))->isOne())
        os << "__vf_ub_if(" << arg(0) << "==" << intLit(APInt::getSignedMinValue(w)) << ",\"abs of INT_MIN\");";
      os << res << masked("(" + sview(arg(0), w) + "<0)?(0-" + arg(0) + "):" + arg(0), w) << ";"; return;
    case Intrinsic::umin: os << res << "(" << arg(0) << "<" << arg(1) << "?" << arg(0) << ":" << arg(1) << ");"; return;
    case Intrinsic::umax: os << res << "(" << arg(0) << ">" << arg(1) << "?" << arg(0) << ":" << arg(1) << ");"; return;
    case Intrinsic::smin: os << res << "(" << sview(arg(0), w) << "<" << sview(arg(1), w) << "?" << arg(0) << ":" << arg(1) << ");"; return;
    case Intrinsic::smax: os << res << "(" << sview(arg(0), w) << ">" << sview(arg(1), w) << "?" << arg(0) << ":" << arg(1) << ");"; return;
    case Intrinsic::ctpop: os << res << "__vf_ctpop((uint64_t)" << arg(0) << ");"; return;
    case Intrinsic::ctlz: os << res << "__vf_ctlz((uint64_t)" << arg(0) << "," << w << ");"; return;
    case Intrinsic::cttz: os << res << "__vf_cttz((uint64_t)" << arg(0) << "," << w << ");"; return;
    case Intrinsic::bswap:
      if (w == 16) os << res << "(uint16_t)((" << arg(0) << "<<8)|(" << arg(0) << ">>8));";
      else if (w == 32) os << res << "__builtin_bswap32(" << arg(0) << ");";
      else os << res << "__builtin_bswap64(" << arg(0) << ");";
      return;
    case Intrinsic::fshl: case Intrinsic::fshr: {
      bool l = CF->getIntrinsicID() == Intrinsic::fshl;
      os << res << "__vf_fsh" << (l ? "l" : "r") << w << "(" << arg(0) << "," << arg(1) << "," << arg(2) << ");"; return;
    }
    case Intrinsic::uadd_with_overflow: case Intrinsic::usub_with_overflow: case Intrinsic::umul_with_overflow:
    case Intrinsic::sadd_with_overflow: case Intrinsic::ssub_with_overflow: case Intrinsic::smul_with_overflow: {
      unsigned ow = CB.getArgOperand(0)->getType()->getIntegerBitWidth();
      if (ow > 64) fail("overflow intrinsic > 64");
      std::string a = arg(0), b = arg(1), r = X.names[&CB];
      auto id = CF->getIntrinsicID();
      bool sg = id == Intrinsic::sadd_with_overflow || id == Intrinsic::ssub_with_overflow || id == Intrinsic::smul_with_overflow;
      std::string op = (id == Intrinsic::uadd_with_overflow || id == Intrinsic::sadd_with_overflow) ? "+" :
                       (id == Intrinsic::usub_with_overflow || id == Intrinsic::ssub_with_overflow) ? "-" : "*";
      if (!sg) {
        os << "{ unsigned __int128 __w = (unsigned __int128)" << a << op << "(unsigned __int128)" << b << "; " << r << ".f0 = " << masked("__w", ow)
           << "; " << r << ".f1 = (__w != (unsigned __int128)" << r << ".f0); }";
      } else {
        os << "{ __int128 __w = (__int128)" << sview(a, ow) << op << "(__int128)" << sview(b, ow) << "; " << r << ".f0 = " << masked("(unsigned __int128)__w", ow)
           << "; " << r << ".f1 = (__w != (__int128)" << sview(r + ".f0", ow) << "); }";
      }
      return;
    }
    case Intrinsic::stacksave: os << res << "(char*)0;"; return;
    case Intrinsic::stackrestore: return;
    case Intrinsic::objectsize: os << res << "(" << ctype(RT) << ")-1;"; return;
    case Intrinsic::is_constant: os << res << "0;"; return;
    default: fail("intrinsic " + CF->getName().str());
    }
  }
  // assertion helpers
  if (CF && (CF->getName() == "vf_assert" || CF->getName() == "vf_assume" || CF->getName() == "vf_cover")) {
    std::string d = CB.arg_size() > 1 ? strLiteralOf(CB.getArgOperand(1)) : "";
    std::string fn = X.F->getName().str();
    if (CF->getName() == "vf_assert") os << "__CPROVER_assert(" << arg(0) << "!=0, \"VF " << fn << ": " << d << "\");";
    else if (CF->getName() == "vf_assume") os << "__CPROVER_assume(" << arg(0) << "!=0);";
    else os << "__CPROVER_cover(" << arg(0) << "!=0);";
    return;
  }
  if (cutCall(CB)) { os << "__vf_str_empty(" << arg(0) << ");"; return; }
  if (CF && CF->getName() == "vf_buffer_room") { os << res << "(uint64_t)(__CPROVER_OBJECT_SIZE(" << arg(0) << ") - __CPROVER_POINTER_OFFSET(" << arg(0) << "));"; return; }
  std::string callee;
  FunctionType *FT = CB.getFunctionType();
  if (CF) callee = gname(CF);
  else callee = "((" + fnProtoType(FT) + ")" + val(X, CB.getCalledOperand()) + ")";
  std::vector<std::string> args;
  bool anyByval = false;
  for (unsigned i = 0; i < CB.arg_size(); i++) {
    if (CB.isByValArgument(i)) {
      uint64_t sz = DL->getTypeAllocSize(CB.getParamByValType(i));
      std::string t = "__bv" + std::to_string(X.tmp++);
      if (!anyByval) os << "{ ";
      anyByval = true;
      os << "char " << t << "[" << sz << "]; memcpy(" << t << "," << arg(i) << "," << sz << "); ";
      args.push_back("(char*)" + t);
    } else args.push_back(arg(i));
  }
  os << res << callee << "(";
  for (unsigned i = 0; i < args.size(); i++) os << (i ? "," : "") << args[i];
  os << ");";
  if (anyByval) os << " }";
  if (mayThrow(CB)) os << " if (__vf_exc) { " << unwindAction << " }";
}

static void emitInst(FnCtx &X, const Instruction &I, std::ostream &os) {
  auto V = [&](unsigned i) { return val(X, I.getOperand(i)); };
  std::string r = I.getType()->isVoidTy() ? "" : X.names[&I];
  Type *T = I.getType();
  std::string retZero = "return " + zeroOf(X.F->getReturnType()) + ";";
  switch (I.getOpcode()) {
  case Instruction::Add: case Instruction::Sub: case Instruction::Mul:
  case Instruction::And: case Instruction::Or: case Instruction::Xor: {
    unsigned w = T->getIntegerBitWidth();
    const char *op = I.getOpcode() == Instruction::Add ? "+" : I.getOpcode() == Instruction::Sub ? "-" :
                     I.getOpcode() == Instruction::Mul ? "*" : I.getOpcode() == Instruction::And ? "&" :
                     I.getOpcode() == Instruction::Or ? "|" : "^";
    std::string wt = cwidth(w) < 32 ? "uint32_t" : intty(w);
    if (I.getOpcode() == Instruction::Sub && w == 64) {
      auto ptrOf = [&](const Value *v) -> const Value * {
        if (auto *P = dyn_cast<PtrToIntOperator>(v)) return P->getPointerOperand();
        return nullptr;
      };
      const Value *pa = ptrOf(I.getOperand(0)), *pb = ptrOf(I.getOperand(1));
      if (pa && pb) { os << r << " = __vf_ptrdiff(" << val(X, pa) << "," << val(X, pb) << ");"; return; }
    }
    os << r << " = " << masked("(" + wt + ")" + V(0) + op + "(" + wt + ")" + V(1), w) << ";";
    return;
  }
  case Instruction::UDiv: case Instruction::URem: {
    unsigned w = T->getIntegerBitWidth();
    os << "__vf_ub_if(" << V(1) << "==0,\"division by zero\"); ";
    os << r << " = " << masked(V(0) + (I.getOpcode() == Instruction::UDiv ? "/" : "%") + V(1), w) << ";";
    return;
  }
  case Instruction::SDiv: case Instruction::SRem: {
    unsigned w = T->getIntegerBitWidth();
    os << "__vf_ub_if(" << V(1) << "==0,\"division by zero\"); ";
    os << "__vf_ub_if(" << V(0) << "==" << intLit(APInt::getSignedMinValue(w)) << "&&" << V(1) << "==" << intLit(APInt::getAllOnes(w)) << ",\"sdiv overflow\"); ";
    os << r << " = " << masked("(" + intty(w) + ")(" + sview(V(0), w) + (I.getOpcode() == Instruction::SDiv ? "/" : "%") + sview(V(1), w) + ")", w) << ";";
    return;
  }
  case Instruction::Shl: case Instruction::LShr: case Instruction::AShr: {
    unsigned w = T->getIntegerBitWidth();
    std::string a = V(0), b = V(1);
    std::string e;
    if (I.getOpcode() == Instruction::Shl) e = "(" + intty(w) + ")" + a + "<<" + b;
    else if (I.getOpcode() == Instruction::LShr) e = a + ">>" + b;
    else e = "(" + intty(w) + ")(" + sview(a, w) + ">>" + b + ")";
    os << r << " = (" << b << "<" << w << ") ? " << masked(e, w) << " : 0;";
    return;
  }
  case Instruction::ICmp: {
    auto &C = cast<ICmpInst>(I);
    Type *OT = I.getOperand(0)->getType();
    std::string a = V(0), b = V(1);
    if (OT->isPointerTy()) {
      const char *op = nullptr;
      switch (C.getPredicate()) {
      case CmpInst::ICMP_EQ: op = "=="; break; case CmpInst::ICMP_NE: op = "!="; break;
      case CmpInst::ICMP_ULT: op = "<"; break; case CmpInst::ICMP_ULE: op = "<="; break;
      case CmpInst::ICMP_UGT: op = ">"; break; case CmpInst::ICMP_UGE: op = ">="; break;
      default: fail("signed ptr cmp");
      }
      if (C.isEquality()) os << r << " = (" << a << op << b << ");";
      else os << r << " = (__CPROVER_same_object(" << a << "," << b << ") ? (__CPROVER_POINTER_OFFSET(" << a << ")" << op << "__CPROVER_POINTER_OFFSET(" << b << ")) : ((uint64_t)" << a << op << "(uint64_t)" << b << "));";
      return;
    }
    unsigned w = OT->getIntegerBitWidth();
    if (C.isSigned()) { a = sview(a, w); b = sview(b, w); }
    const char *op = nullptr;
    switch (C.getPredicate()) {
    case CmpInst::ICMP_EQ: op = "=="; break; case CmpInst::ICMP_NE: op = "!="; break;
    case CmpInst::ICMP_ULT: case CmpInst::ICMP_SLT: op = "<"; break;
    case CmpInst::ICMP_ULE: case CmpInst::ICMP_SLE: op = "<="; break;
    case CmpInst::ICMP_UGT: case CmpInst::ICMP_SGT: op = ">"; break;
    case CmpInst::ICMP_UGE: case CmpInst::ICMP_SGE: op = ">="; break;
    default: fail("icmp pred");
    }
    os << r << " = (" << a << op << b << ");";
    return;
  }
  case Instruction::Trunc: os << r << " = " << masked(V(0), T->getIntegerBitWidth()) << ";"; return;
  case Instruction::ZExt: os << r << " = (" << ctype(T) << ")" << V(0) << ";"; return;
  case Instruction::SExt: {
    unsigned sw = I.getOperand(0)->getType()->getIntegerBitWidth(), dw = T->getIntegerBitWidth();
    if (sw == 1) os << r << " = " << masked("(" + V(0) + "?~(" + intty(dw) + ")0:0)", dw) << ";";
    else os << r << " = " << masked("(" + intty(dw) + ")(" + sintty(dw) + ")" + sview(V(0), sw), dw) << ";";
    return;
  }
  case Instruction::PtrToInt: os << r << " = " << masked("(uint64_t)" + V(0), T->getIntegerBitWidth()) << ";"; return;
  case Instruction::IntToPtr: os << r << " = (char*)(uint64_t)" << V(0) << ";"; return;
  case Instruction::BitCast:
    if (T->isPointerTy()) { os << r << " = " << V(0) << ";"; return; }
    fail("non-pointer bitcast");
  case Instruction::Freeze: os << r << " = " << V(0) << ";"; return;
  case Instruction::Select: os << r << " = " << V(0) << " ? " << V(1) << " : " << V(2) << ";"; return;
  case Instruction::GetElementPtr: os << r << " = " << gepExpr(X, cast<GEPOperator>(&I)) << ";"; return;
  case Instruction::Load: {
    auto &L = cast<LoadInst>(I);
    os << r << " = *(" << ctype(T) << "*)" << V(0) << ";";
    if (T->isIntegerTy() && !maskOf(T->getIntegerBitWidth()).empty() && T->getIntegerBitWidth() != 1)
      os << " " << r << " = " << masked(r, T->getIntegerBitWidth()) << ";";
    (void)L;
    return;
  }
  case Instruction::Store: {
    Type *VT = I.getOperand(0)->getType();
    os << "*(" << ctype(VT) << "*)" << V(1) << " = " << V(0) << ";";
    return;
  }
  case Instruction::Alloca: return; // handled in prologue
  case Instruction::PHI: return;
  case Instruction::ExtractValue: {
    auto &E = cast<ExtractValueInst>(I);
    std::string e = V(0);
    Type *CT = I.getOperand(0)->getType();
    for (unsigned idx : E.indices()) {
      if (CT->isStructTy()) { e += ".f" + std::to_string(idx); CT = CT->getStructElementType(idx); }
      else { e += ".e[" + std::to_string(idx) + "]"; CT = CT->getArrayElementType(); }
    }
    os << r << " = " << e << ";";
    return;
  }
  case Instruction::InsertValue: {
    auto &E = cast<InsertValueInst>(I);
    if (!isa<UndefValue>(I.getOperand(0))) os << r << " = " << V(0) << "; ";
    std::string e = r;
    Type *CT = T;
    for (unsigned idx : E.indices()) {
      if (CT->isStructTy()) { e += ".f" + std::to_string(idx); CT = CT->getStructElementType(idx); }
      else { e += ".e[" + std::to_string(idx) + "]"; CT = CT->getArrayElementType(); }
    }
    os << e << " = " << V(1) << ";";
    return;
  }
  case Instruction::Call: emitCall(X, cast<CallBase>(I), os, retZero); return;
  case Instruction::Invoke: {
    auto &IV = cast<InvokeInst>(I);
    emitCall(X, IV, os, gotoEdge(X, I.getParent(), IV.getUnwindDest()));
    os << " " << gotoEdge(X, I.getParent(), IV.getNormalDest());
    return;
  }
  case Instruction::LandingPad: {
    auto &LP = cast<LandingPadInst>(I);
    os << r << ".f0 = __vf_exc_obj; " << r << ".f1 = 0; __vf_exc = 0; ";
    bool first = true;
    for (unsigned i = 0; i < LP.getNumClauses(); i++) {
      if (!LP.isCatch(i)) fail("filter clause");
      Constant *TI = LP.getClause(i);
      int id = typeIdOf(TI);
      os << (first ? "" : "else ") << "if (__vf_type_matches(__vf_exc_type, " << constExpr(cast<Constant>(TI->stripPointerCasts())) << ")) " << r << ".f1 = " << id << "; ";
      first = false;
    }
    return;
  }
  case Instruction::Resume:
    os << "__vf_exc = 1; __vf_exc_obj = " << V(0) << ".f0; " << retZero;
    return;
  case Instruction::Br: {
    auto &B = cast<BranchInst>(I);
    if (B.isUnconditional()) os << gotoEdge(X, I.getParent(), B.getSuccessor(0));
    else os << "if (" << V(0) << ") { " << gotoEdge(X, I.getParent(), B.getSuccessor(0)) << " } else { " << gotoEdge(X, I.getParent(), B.getSuccessor(1)) << " }";
    return;
  }
  case Instruction::Switch: {
    auto &S = cast<SwitchInst>(I);
    os << "switch (" << V(0) << ") { ";
    for (auto &c : S.cases()) os << "case " << intLit(c.getCaseValue()->getValue()) << ": { " << gotoEdge(X, I.getParent(), c.getCaseSuccessor()) << " } ";
    os << "default: { " << gotoEdge(X, I.getParent(), S.getDefaultDest()) << " } }";
    return;
  }
  case Instruction::Ret:
    if (I.getNumOperands()) os << "return " << V(0) << ";"; else os << "return;";
    return;
  case Instruction::Unreachable: os << "__vf_unreachable(); " << retZero; return;
  case Instruction::AtomicRMW: {
    auto &A = cast<AtomicRMWInst>(I);
    std::string p = "*(" + ctype(T) + "*)" + V(0);
    os << r << " = " << p << "; ";
    const char *op = nullptr;
    switch (A.getOperation()) {
    case AtomicRMWInst::Add: op = "+"; break; case AtomicRMWInst::Sub: op = "-"; break;
    case AtomicRMWInst::And: op = "&"; break; case AtomicRMWInst::Or: op = "|"; break;
    case AtomicRMWInst::Xor: op = "^"; break;
    case AtomicRMWInst::Xchg: os << p << " = " << V(1) << ";"; return;
    default: fail("atomicrmw op");
    }
    os << p << " = " << r << op << V(1) << ";";
    return;
  }
  case Instruction::Fence: return;
  default: {
    std::string s; raw_string_ostream o2(s); I.print(o2);
    fail("instruction " + o2.str());
  }
  }
}

static std::string protoOf(const Function &F, bool def = false) {
  FunctionType *FT = F.getFunctionType();
  std::string s = ctype(FT->getReturnType()) + " " + (def ? defname(&F) : gname(&F)) + "(";
  for (unsigned i = 0; i < FT->getNumParams(); i++) s += (i ? ", " : "") + ctype(FT->getParamType(i)) + " a" + std::to_string(i);
  if (FT->isVarArg()) s += FT->getNumParams() ? ", ..." : "";
  else if (FT->getNumParams() == 0) s += "void";
  return s + ")";
}

static void emitFunction(const Function &F, std::ostream &out) {
  FnCtx X;
  X.F = &F;
  int n = 0;
  for (auto &A : F.args()) X.names[&A] = "a" + std::to_string(A.getArgNo());
  for (auto &BB : F) {
    X.labels[&BB] = "bb" + std::to_string(n++);
    for (auto &I : BB)
      if (!I.getType()->isVoidTy()) X.names[&I] = "v" + std::to_string(n++);
  }
  out << protoOf(F, true) << " {\n";
  for (auto &BB : F)
    for (auto &I : BB) {
      if (I.getType()->isVoidTy()) continue;
      if (auto *AI = dyn_cast<AllocaInst>(&I)) {
        if (AI->isStaticAlloca()) {
          uint64_t cnt = cast<ConstantInt>(AI->getArraySize())->getZExtValue();
          Type *AT = AI->getAllocatedType();
          std::string st = X.names[&I] + "_s";
          uint64_t bytes = DL->getTypeAllocSize(AT) * cnt;
          out << "  char " << st << "[" << (bytes ? bytes : 1) << "]; char* " << X.names[&I] << " = (char*)" << st << ";\n";
        } else {
          out << "  char* " << X.names[&I] << ";\n";
        }
        continue;
      }
      out << "  " << ctype(I.getType()) << " " << X.names[&I] << ";\n";
    }
  for (auto &BB : F) {
    out << " " << X.labels[&BB] << ": ;\n";
    for (auto &I : BB) {
      if (auto *AI = dyn_cast<AllocaInst>(&I)) {
        if (!AI->isStaticAlloca()) {
          uint64_t sz = DL->getTypeAllocSize(AI->getAllocatedType());
          out << "  " << X.names[&I] << " = (char*)__builtin_alloca(" << sz << "ULL*(uint64_t)" << val(X, AI->getArraySize()) << ");\n";
        }
        continue;
      }
      std::ostringstream os;
      emitInst(X, I, os);
      if (!os.str().empty()) out << "  " << os.str() << "\n";
    }
  }
  out << "}\n\n";
}

int main(int argc, char **argv) {
  if (argc < 3) { errs() << "usage: ir2c in.ll out.c [--stub name]... [--rtglobal name]... [--root fn]...\n"; return 1; }
  std::vector<std::string> roots;
  std::string funcsFile;
  for (int i = 3; i < argc; i++) {
    std::string a = argv[i];
    if (a == "--stub" && i + 1 < argc) Stubbed.insert(argv[++i]);
    else if (a == "--rtglobal" && i + 1 < argc) RtGlobals.insert(argv[++i]);
    else if (a == "--root" && i + 1 < argc) roots.push_back(argv[++i]);
    else if (a == "--rename" && i + 1 < argc) { std::string kv = argv[++i]; auto p = kv.find('='); Renames[kv.substr(0, p)] = kv.substr(p + 1); }
    else if (a == "--emptystr" && i + 1 < argc) EmptyStrPrefixes.push_back(argv[++i]);
    else if (a == "--redirect" && i + 1 < argc) { std::string kv = argv[++i]; auto p = kv.find('='); Redirects[kv.substr(0, p)] = kv.substr(p + 1); }
    else if (a == "--undef-nondet") UndefNondet = true;
    else if (a == "--keep-in" && i + 1 < argc) KeepIn.push_back(argv[++i]);
    else if (a == "--memcpy-hook" && i + 1 < argc) { std::string kv = argv[++i]; auto p = kv.find('='); MemcpyHooks[kv.substr(0, p)] = kv.substr(p + 1); }
    else if (a == "--funcs" && i + 1 < argc) funcsFile = argv[++i];
    else { errs() << "ir2c: unknown option " << a << "\n"; return 1; }
  }
  LLVMContext C;
  SMDiagnostic E;
  auto M = parseIRFile(argv[1], E, C);
  if (!M) { E.print("ir2c", errs()); return 1; }
  Mod = M.get();
  DL = &M->getDataLayout();

  // reachability from roots (functions + globals)
  std::set<const GlobalValue *> live;
  std::vector<const GlobalValue *> work;
  auto mark = [&](const GlobalValue *G) { if (live.insert(G).second) work.push_back(G); };
  std::function<void(const Constant *)> scanConst = [&](const Constant *Cn) {
    if (auto *G = dyn_cast<GlobalValue>(Cn)) { mark(G); return; }
    for (auto &Op : Cn->operands()) if (auto *OC = dyn_cast<Constant>(Op)) scanConst(OC);
  };
  if (roots.empty()) for (auto &F : *M) { if (!F.isDeclaration() && F.hasExternalLinkage() && !F.getName().startswith("_Z")) mark(&F); }
  for (auto &r : roots) if (auto *F = M->getFunction(r)) mark(F); else fail("root " + r);
  for (auto &kv : MemcpyHooks) if (auto *F = M->getFunction(kv.second)) mark(F); else fail("memcpy hook " + kv.second);
  std::vector<const Function *> ctors;
  if (auto *GC = M->getGlobalVariable("llvm.global_ctors")) {
    if (auto *CA = dyn_cast<ConstantArray>(GC->getInitializer()))
      for (auto &Op : CA->operands()) {
        auto *F = dyn_cast<Function>(cast<ConstantStruct>(Op)->getOperand(1)->stripPointerCasts());
        if (F) { ctors.push_back(F); mark(F); }
      }
  }
  while (!work.empty()) {
    const GlobalValue *G = work.back(); work.pop_back();
    if (auto *F = dyn_cast<Function>(G)) {
      { auto rit = Redirects.find(F->getName().str()); if (rit != Redirects.end()) { if (auto *T = M->getFunction(rit->second)) mark(T); else fail("redirect target " + rit->second); continue; } }
      if (F->isDeclaration() || Stubbed.count(F->getName().str())) continue;
      for (auto &BB : *F) for (auto &I : BB) {
        const Value *skip = nullptr;
        if (auto *CB = dyn_cast<CallBase>(&I)) if (cutCall(*CB)) skip = CB->getCalledOperand();
        for (auto &Op : I.operands()) if (Op.get() != skip) if (auto *OC = dyn_cast<Constant>(Op)) scanConst(OC);
        if (auto *LP = dyn_cast<LandingPadInst>(&I))
          for (unsigned i = 0; i < LP->getNumClauses(); i++) scanConst(LP->getClause(i));
      }
    } else if (auto *GV = dyn_cast<GlobalVariable>(G)) {
      if (GV->hasInitializer()) scanConst(GV->getInitializer());
    } else if (auto *GA = dyn_cast<GlobalAlias>(G)) {
      scanConst(GA->getAliasee());
    }
  }

  std::ostringstream fwd, gfwd, globals, funcs;
  std::vector<std::string> emitted;
  // function prototypes
  for (auto &F : *M) {
    if (!live.count(&F) || F.isIntrinsic()) continue;
    StringRef n = F.getName();
    if (n == "vf_assert" || n == "vf_assume" || n == "vf_cover" || n == "vf_buffer_room") continue;
    if (Redirects.count(n.str())) continue;
    fwd << protoOf(F) << ";\n";
    if (Renames.count(n.str())) fwd << protoOf(F, true) << ";\n";
  }
  for (auto &A : M->aliases()) {
    if (!live.count(&A)) continue;
    if (auto *F = dyn_cast<Function>(A.getAliasee()->stripPointerCasts())) {
      // alias to function: emit forwarding macro
      fwd << "#define " << gname(&A) << " " << gname(F) << "\n";
    } else fail("alias to non-function");
  }
  // globals
  for (auto &G : M->globals()) {
    if (!live.count(&G)) continue;
    if (G.getName().startswith("llvm.")) continue;
    Type *VT = G.getValueType();
    std::string nm = gname(&G);
    if (G.isDeclaration()) {
      if (RtGlobals.count(G.getName().str())) { gfwd << "extern char " << nm << "[];\n"; continue; }
      uint64_t sz = VT->isSized() ? DL->getTypeAllocSize(VT) : 8;
      gfwd << "char " << nm << "[" << (sz ? sz : 1) << "]; /* external */\n";
      continue;
    }
    std::string ct = ctype(VT);
    gfwd << "extern " << (G.isConstant() ? "const " : "") << ct << " " << nm << ";\n";
    globals << (G.isConstant() ? "const " : "") << ct << " " << nm << " = " << constInit(G.getInitializer()) << ";\n";
  }
  for (auto &F : *M) {
    if (!live.count(&F) || F.isDeclaration() || Stubbed.count(F.getName().str()) || Redirects.count(F.getName().str())) continue;
    emitFunction(F, funcs);
    emitted.push_back(F.getName().str());
  }
  // type match table
  std::ostringstream tm;
  tm << "void __vf_global_ctors(void) {";
  for (auto *F : ctors) tm << " " << gname(F) << "();";
  tm << " }\n";

  std::ofstream out(argv[2]);
  out << "#include \"rt.h\"\n";
  for (auto &d : AggDefs) out << d << "\n";
  out << fwd.str() << "\n" << gfwd.str() << "\n" << globals.str() << "\n" << funcs.str() << tm.str();
  out.close();
  if (!funcsFile.empty()) { std::ofstream ff(funcsFile); for (auto &n : emitted) ff << n << "\n"; }
  return 0;
}
