#include "rt.h"
int __vf_exc; char* __vf_exc_obj; char* __vf_exc_type;
extern char _ZTISt9exception[], _ZTISt13runtime_error[], _ZTISt11logic_error[], _ZTISt12length_error[], _ZTISt9bad_alloc[], _ZTISt12out_of_range[], _ZTISt16invalid_argument[], _ZTISt20bad_array_new_length[];
#ifndef VF_MAX_ALLOC
#define VF_MAX_ALLOC (1u<<16)
#endif
void __vf_trap(void){ __CPROVER_assert(0, "UB: llvm.trap reached"); __CPROVER_assume(0); }
void __vf_ubsan(uint8_t k){ __CPROVER_assert(0, "UB: ubsan trap"); __CPROVER_assume(0); }
void __vf_unreachable(void){ __CPROVER_assert(0, "UB: unreachable reached"); __CPROVER_assume(0); }
void __vf_memcpy(char*d, char*s, uint64_t n){ for(uint64_t i=0;i<n;i++) d[i]=s[i]; }
void __vf_memmove(char*d, char*s, uint64_t n){ if(n){ if(__CPROVER_same_object(d,s) && d>s){ for(uint64_t i=n;i>0;i--) d[i-1]=s[i-1]; } else { for(uint64_t i=0;i<n;i++) d[i]=s[i]; } } }
void __vf_memset(char*d, uint8_t c, uint64_t n){ for(uint64_t i=0;i<n;i++) d[i]=c; }
uint64_t __vf_ctpop(uint64_t x){ x=x-((x>>1)&0x5555555555555555ULL); x=(x&0x3333333333333333ULL)+((x>>2)&0x3333333333333333ULL); x=(x+(x>>4))&0x0f0f0f0f0f0f0f0fULL; return (x*0x0101010101010101ULL)>>56; }
/* loop-free count leading/trailing zeros (so that no unwinding bound is involved) */
uint64_t __vf_ctlz(uint64_t x,int w){ if(w<64) x&=((1ULL<<w)-1); if(!x) return (uint64_t)w; uint64_t n=0; if(!(x>>32)){n+=32;x<<=32;} if(!(x>>48)){n+=16;x<<=16;} if(!(x>>56)){n+=8;x<<=8;} if(!(x>>60)){n+=4;x<<=4;} if(!(x>>62)){n+=2;x<<=2;} if(!(x>>63)){n+=1;} return n-(uint64_t)(64-w); }
uint64_t __vf_cttz(uint64_t x,int w){ if(w<64) x&=((1ULL<<w)-1); if(!x) return (uint64_t)w; uint64_t n=0; if(!(x&0xFFFFFFFFULL)){n+=32;x>>=32;} if(!(x&0xFFFF)){n+=16;x>>=16;} if(!(x&0xFF)){n+=8;x>>=8;} if(!(x&0xF)){n+=4;x>>=4;} if(!(x&3)){n+=2;x>>=2;} if(!(x&1)){n+=1;} return n; }

/* exception type hierarchy of the std types the code throws */
static char* base_of(char* t){
  if(t==_ZTISt13runtime_error||t==_ZTISt11logic_error||t==_ZTISt9bad_alloc) return _ZTISt9exception;
  if(t==_ZTISt12length_error||t==_ZTISt12out_of_range||t==_ZTISt16invalid_argument) return _ZTISt11logic_error;
  if(t==_ZTISt20bad_array_new_length) return _ZTISt9bad_alloc;
  return 0;
}
int __vf_type_matches(char* thrown, char* target){
  if(target==0) return 1;
  for(int i=0;i<4 && thrown;i++){ if(thrown==target) return 1; thrown=base_of(thrown); }
  return 0;
}
void vf_at_throw(void);
static void raise(char* type){
#ifdef VF_EXC_CUT
 vf_at_throw(); __CPROVER_assume(0);
#endif
 __vf_exc=1; __vf_exc_obj=malloc(16); __CPROVER_assume(__vf_exc_obj!=0); __vf_exc_type=type; 
  extern char* __vf_exc_vtbl[]; *(char**)__vf_exc_obj=(char*)&__vf_exc_vtbl[2]; }
/* C++ ABI */
char* __cxa_allocate_exception(uint64_t n){ char* p=malloc(n); __CPROVER_assume(p!=0); return p; }
void __cxa_free_exception(char* p){ free(p); }
void vf_at_throw(void);
#ifdef VF_EXC_CUT
#define CUT() do{ vf_at_throw(); __CPROVER_assume(0); }while(0)
#else
#define CUT() do{}while(0)
#endif
void __cxa_throw(char* obj, char* type, char* dtor){ CUT(); __vf_exc=1; __vf_exc_obj=obj; __vf_exc_type=type; }
static char* caught_obj; static char* caught_type;
char* __cxa_begin_catch(char* obj){ caught_obj=obj; caught_type=__vf_exc_type; return obj; }
void __cxa_end_catch(void){ }
void __cxa_rethrow(void){ __vf_exc=1; __vf_exc_obj=caught_obj; __vf_exc_type=caught_type; }
void __cxa_pure_virtual(void){ __CPROVER_assert(0,"pure virtual call"); __CPROVER_assume(0); }
void _ZSt9terminatev(void){ __CPROVER_assert(0,"std::terminate"); __CPROVER_assume(0); }
int __cxa_atexit(char* f, char* a, char* d){ return 0; }
uint32_t __gxx_personality_v0(){ return 0; }
/* std::exception objects: vptr only; what() returns a fixed string */
static void exc_dtor(char* self){}
static void exc_dtor_del(char* self){ }
static char* exc_what(char* self){ return "e"; }
char* __vf_exc_vtbl[5] = {0,0,(char*)exc_dtor,(char*)exc_dtor_del,(char*)exc_what};
void _ZNSt13runtime_errorC1EPKc(char* self, char* msg){ *(char**)self=(char*)&__vf_exc_vtbl[2]; }
void _ZNSt13runtime_errorC1ERKNSt7__cxx1112basic_stringIcSt11char_traitsIcESaIcEEE(char* self, char* s){ *(char**)self=(char*)&__vf_exc_vtbl[2]; }
void _ZNSt13runtime_errorD1Ev(char* self){}
void _ZNSt16invalid_argumentC1ERKNSt7__cxx1112basic_stringIcSt11char_traitsIcESaIcEEE(char* self, char* s){ *(char**)self=(char*)&__vf_exc_vtbl[2]; }
void _ZNSt16invalid_argumentD1Ev(char* self){}
void _ZSt20__throw_length_errorPKc(char* m){ raise(_ZTISt12length_error); }
void _ZSt19__throw_logic_errorPKc(char* m){ raise(_ZTISt11logic_error); }
void _ZSt24__throw_out_of_range_fmtPKcz(char* m, ...){ raise(_ZTISt12out_of_range); }
void _ZSt17__throw_bad_allocv(void){ raise(_ZTISt9bad_alloc); }
void _ZSt28__throw_bad_array_new_lengthv(void){ raise(_ZTISt20bad_array_new_length); }
/* allocation: requests above VF_MAX_ALLOC fail with bad_alloc (stated bound) */
char* _Znwm(uint64_t n){ if(n>VF_MAX_ALLOC){ raise(_ZTISt9bad_alloc); return 0; } char* p=malloc(n?n:1); __CPROVER_assume(p!=0); return p; }
char* _Znam(uint64_t n){ return _Znwm(n); }
void _ZdlPv(char* p){ free(p); }
void _ZdaPv(char* p){ free(p); }
void _ZdlPvm(char* p, uint64_t n){ free(p); }
void _ZNSt8ios_base4InitC1Ev(char* self){}
void _ZNSt8ios_base4InitD1Ev(char* self){}
/* std::to_string: digits are not part of any property; returns "0" (SSO layout of libstdc++ std::string) */
static void str0(char* sret){ *(char**)sret=sret+16; *(uint64_t*)(sret+8)=1; sret[16]='0'; sret[17]=0; }
void _ZNSt7__cxx119to_stringEi(char* sret, uint32_t v){ str0(sret); }
void _ZNSt7__cxx119to_stringEj(char* sret, uint32_t v){ str0(sret); }
void _ZNSt7__cxx119to_stringEm(char* sret, uint64_t v){ str0(sret); }
void _ZNSt7__cxx119to_stringEl(char* sret, uint64_t v){ str0(sret); }
/* libc */
uint64_t __vf_libc_strlen(char* s){ uint64_t n=0; while(s[n]) n++; return n; }
uint32_t __vf_libc_memcmp(char* a, char* b, uint64_t n){ for(uint64_t i=0;i<n;i++){ unsigned char x=a[i], y=b[i]; if(x!=y) return x<y?(uint32_t)-1:1; } return 0; }
uint32_t __vf_libc_bcmp(char* a, char* b, uint64_t n){ return __vf_libc_memcmp(a,b,n); }
char* __vf_libc_memchr(char* s, uint32_t c, uint64_t n){ for(uint64_t i=0;i<n;i++) if((unsigned char)s[i]==(unsigned char)c) return s+i; return 0; }
/* glibc, C locale: the tables cover -128..255; a negative char other than EOF (-1) maps to its unsigned value */
uint32_t __vf_libc_toupper(uint32_t c){ int32_t x=(int32_t)c; if(x>='a'&&x<='z') return c-32; if(x<-1&&x>=-128) return (uint32_t)(x+256); return c; }
uint32_t __vf_libc_tolower(uint32_t c){ int32_t x=(int32_t)c; if(x>='A'&&x<='Z') return c+32; if(x<-1&&x>=-128) return (uint32_t)(x+256); return c; }
char* __vf_libc_strncpy(char* d, char* s, uint64_t n){ uint64_t i=0; for(;i<n&&s[i];i++) d[i]=s[i]; for(;i<n;i++) d[i]=0; return d; }
char* __vf_libc_malloc(uint64_t n){ char* p=malloc(n?n:1); __CPROVER_assume(p!=0); return p; }
void __vf_libc_free(char* p){ free(p); }
void __vf_libc_abort(void){ __CPROVER_assert(0,"abort() called"); __CPROVER_assume(0); }
uint32_t __vf_libc_strcmp(char* a, char* b){ uint64_t i=0; for(;;i++){ unsigned char x=a[i], y=b[i]; if(x!=y) return x<y?(uint32_t)-1:1; if(!x) return 0; } }
uint32_t __vf_libc_strncmp(char* a, char* b, uint64_t n){ for(uint64_t i=0;i<n;i++){ unsigned char x=a[i], y=b[i]; if(x!=y) return x<y?(uint32_t)-1:1; if(!x) return 0; } return 0; }
char* __vf_libc_strchr(char* s, uint32_t c){ for(uint64_t i=0;;i++){ if(s[i]==(char)c) return s+i; if(!s[i]) return 0; } }
uint32_t __vf_libc_abs(uint32_t x){ __CPROVER_assert(x!=0x80000000u,"UB: abs(INT_MIN)"); return ((int32_t)x<0)?0u-x:x; }
uint64_t __vf_libc_labs(uint64_t x){ __CPROVER_assert(x!=0x8000000000000000ull,"UB: labs(LONG_MIN)"); return ((int64_t)x<0)?0ull-x:x; }
char* __vf_libc_memcpy(char* d, char* s, uint64_t n){ __vf_memcpy(d,s,n); return d; }
char* __vf_libc_memmove(char* d, char* s, uint64_t n){ __vf_memmove(d,s,n); return d; }
char* __vf_libc_memset(char* d, uint32_t c, uint64_t n){ __vf_memset(d,(uint8_t)c,n); return d; }
/* nondeterministic sources: each draw is one assignment "x=<value>" inside the named function, which is what
   the driver extracts from the counterexample trace, in execution order, for native replay */
uint8_t nondet_uchar(void); uint16_t nondet_ushort(void); uint32_t nondet_uint(void); uint64_t nondet_ulong(void);
uint8_t vf_nondet_u8(void){ uint8_t x=nondet_uchar(); return x; }
uint16_t vf_nondet_u16(void){ uint16_t x=nondet_ushort(); return x; }
uint32_t vf_nondet_u32(void){ uint32_t x=nondet_uint(); return x; }
uint64_t vf_nondet_u64(void){ uint64_t x=nondet_ulong(); return x; }
void vf_havoc(char* p, uint64_t n){ for(uint64_t i=0;i<n;i++){ uint8_t x=nondet_uchar(); p[i]=(char)x; } }
void vf_end(void){ __CPROVER_assume(0); }
void vf_scribble_stack(uint8_t pattern){ }   /* solver side: uninitialised automatic storage is arbitrary anyway */
uint64_t __vf_undef(void){ uint64_t x=nondet_ulong(); return x; }
void __vf_str_empty(char* sret){ *(char**)sret=sret+16; *(uint64_t*)(sret+8)=0; sret[16]=0; }

/* std::string::_M_replace: libstdc++ decides aliasing with relational comparisons of unrelated pointers
   (_M_disjunct); for a source outside the string's own buffer take the non-aliasing path directly. */
char* __vf_real_M_replace(char* self, uint64_t pos, uint64_t len1, char* s, uint64_t len2);
void _ZNSt7__cxx1112basic_stringIcSt11char_traitsIcESaIcEE9_M_mutateEmmPKcm(char* self, uint64_t pos, uint64_t len1, char* s, uint64_t len2);
char* _ZNSt7__cxx1112basic_stringIcSt11char_traitsIcESaIcEE10_M_replaceEmmPKcm(char* self, uint64_t pos, uint64_t len1, char* s, uint64_t len2){
  char* data=*(char**)self; uint64_t size=*(uint64_t*)(self+8);
  if(__CPROVER_same_object(s,data)) return __vf_real_M_replace(self,pos,len1,s,len2);
  if(len2 > len1 + 0x3fffffffffffffffULL - size){ raise(_ZTISt12length_error); return 0; }
  uint64_t nsize=size+len2-len1; uint64_t cap=(data==self+16)?15:*(uint64_t*)(self+16);
  if(nsize<=cap){ char* p=data+pos; uint64_t tail=size-pos-len1; if(tail && len1!=len2) __vf_memmove(p+len2,p+len1,tail); if(len2) __vf_memcpy(p,s,len2); }
  else { _ZNSt7__cxx1112basic_stringIcSt11char_traitsIcESaIcEE9_M_mutateEmmPKcm(self,pos,len1,s,len2); if(__vf_exc) return 0; }
  *(uint64_t*)(self+8)=nsize; (*(char**)self)[nsize]=0; return self;
}
