/* Symbolic file system for the CBMC side: VFS_N files with concrete names, per file an existence bit, a 64-bit
   size and a content array of VFS_CAP bytes.  Bytes of a file at positions >= VFS_CAP are unconstrained
   (each read of such a byte returns a fresh nondeterministic value), so sizes such as 2^31 or 2^64-1 cost
   nothing as long as the contents there are not relied on.  Writing at or beyond VFS_CAP is an error of the
   harness (assertion).  The directory is flat.  vfs_touched() records the first creation/truncation/write. */
#include <stdint.h>
#include <string.h>
#ifndef VFS_N
#define VFS_N 4
#endif
#ifndef VFS_CAP
#define VFS_CAP 128
#endif
struct vfile { const char* name; int exists; uint64_t size; uint8_t data[VFS_CAP]; int touched; };
struct vfile vfs_files[VFS_N];
int vfs_any_touched;
uint8_t nondet_uchar(void);
static int lookup(const char* name, uint64_t len){
  while(len>=2 && name[0]=='.' && name[1]=='/'){ name+=2; len-=2; while(len && name[0]=='/'){ name++; len--; } }   /* "./name" names the same file */
  for(int i=0;i<VFS_N;i++){ const char* n=vfs_files[i].name; if(!n) continue; uint64_t k=0; while(n[k] && k<len && n[k]==name[k]) k++; if(n[k]==0 && k==len) return i; }
  return -1;
}
int vfs_lookup(const char* name, uint64_t len){ return lookup(name,len); }
int vfs_open_read(const char* name, uint64_t len){ int i=lookup(name,len); if(i<0||!vfs_files[i].exists) return -1; return i; }
/* kind 1: create or truncate ("w"), 2: must exist, contents kept ("r+"), 3: create if missing, contents kept ("a").
   returns -1 when the open fails; a name that is not one of the model's files cannot be created (flat model directory
   with a fixed set of possible names: the harness lists every name the code under test may create). */
int vfs_open_write(const char* name, uint64_t len, int kind){
  int i=lookup(name,len); if(i<0) return -1;
  if(vfs_files[i].exists==2) return -1;               /* a directory */
  if(kind==2 && !vfs_files[i].exists) return -1;
  if(!vfs_files[i].exists || kind==1){ vfs_any_touched=1; vfs_files[i].touched=1; vfs_files[i].size=0; }
  vfs_files[i].exists=1; return i;
}
uint64_t vfs_size(int fd){ return vfs_files[fd].size; }
void vfs_close(int fd){}
uint64_t vfs_read(int fd, uint64_t pos, char* dst, uint64_t n){
  uint64_t sz=vfs_files[fd].size; if(pos>=sz) return 0; uint64_t got = n < sz-pos ? n : sz-pos;
  for(uint64_t i=0;i<got;i++){ uint64_t p=pos+i; uint8_t b=nondet_uchar(); if(p<VFS_CAP) b=vfs_files[fd].data[p]; dst[i]=(char)b; }
  return got;
}
void vfs_write(int fd, uint64_t pos, const char* src, uint64_t n){
  vfs_any_touched=1; vfs_files[fd].touched=1;
  /* a gap left by seeking past the end reads back as zeros */
  for(uint64_t p=vfs_files[fd].size;p<pos;p++){ __CPROVER_assert(p<VFS_CAP,"vfs: write beyond model capacity"); vfs_files[fd].data[p]=0; }
  for(uint64_t i=0;i<n;i++){ uint64_t p=pos+i; __CPROVER_assert(p<VFS_CAP,"vfs: write beyond model capacity"); vfs_files[fd].data[p]=(uint8_t)src[i]; }
  if(pos+n>vfs_files[fd].size) vfs_files[fd].size=pos+n;
}
uint8_t* vfs_data(int i){ return vfs_files[i].data; }
void vfs_set(int i, const char* name, int exists, uint64_t size){ vfs_files[i].name=name; vfs_files[i].exists=exists; vfs_files[i].size=size; vfs_files[i].touched=0; }
uint64_t vfs_get_size(int i){ return vfs_files[i].size; }
int vfs_exists(int i){ return vfs_files[i].exists; }
int vfs_touched(void){ return vfs_any_touched; }
int vfs_touched_file(int i){ return vfs_files[i].touched; }
void vfs_commit(void){}
void vfs_sync(void){}
/* directory listing for the XFile model: name of the i-th existing file or 0 */
const char* vfs_name(int i){ if(i<0||i>=VFS_N||!vfs_files[i].exists) return 0; return vfs_files[i].name; }
int vfs_count(void){ return VFS_N; }
