/* Native replay only: std::abs / abs of the most negative value is undefined behaviour that no sanitizer of clang 14 reports.
   The native build is compiled with -D__builtin_abs=vf_checked_abs (and the long variants), so the replay stops on it. */
#ifndef VF_ABS_H
#define VF_ABS_H
#ifdef __cplusplus
extern "C" {
#endif
int vf_checked_abs(int);
long vf_checked_labs(long);
long long vf_checked_llabs(long long);
#ifdef __cplusplus
}
#endif
#endif
