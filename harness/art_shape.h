// Shape-templated PRT (sprite metadata) byte strings: counts and flag bits concrete per query, every other byte symbolic.
#pragma once
#include "vf.h"
#include "Sprite/ArtFile.h"
#include "Stream/MemoryReader.h"
#include "Stream/MemoryWriter.h"
#ifndef NPAL
#define NPAL 1
#endif
#ifndef NIMG
#define NIMG 1
#endif
#ifndef NANIM
#define NANIM 1
#endif
#ifndef NFR
#define NFR 1          /* frames per animation */
#endif
#ifndef FFLAGS
#define FFLAGS 0       /* bit 0: first optional pair present, bit 1: second optional pair present */
#endif
#ifndef NLAY
#define NLAY 1         /* layers per frame */
#endif
#ifndef UBITS
#define UBITS 0x2A     /* the 7 unused bits of the second metadata byte */
#endif
#ifndef NUNK
#define NUNK 0         /* unknown-container entries per animation */
#endif
#define FRAME_LEN (2 + ((FFLAGS) & 1 ? 2 : 0) + ((FFLAGS) & 2 ? 2 : 0) + 8 * (NLAY))
#define ANIM_LEN (4 + 16 + 8 + 4 + 4 + (NFR) * FRAME_LEN + 4 + 16 * (NUNK))
#define ART_LEN (8 + (NPAL) * (28 + 1024) + 4 + 20 * (NIMG) + 16 + (NANIM) * ANIM_LEN)
struct ArtShape { unsigned offImages, offAnimHeader, offFirstAnim, len; };
static ArtShape build_art(uint8_t* f) {
  ArtShape s; unsigned p = 0;
  vf_havoc(f, ART_LEN);
  memcpy(f, "CPAL", 4); vf_st32(f + 4, NPAL); p = 8;
  for (unsigned i = 0; i < NPAL; i++) {
    memcpy(f + p, "PPAL", 4); vf_st32(f + p + 4, 1048); memcpy(f + p + 8, "head", 4); vf_st32(f + p + 12, 4); vf_st32(f + p + 16, 1);
    memcpy(f + p + 20, "data", 4); vf_st32(f + p + 24, 1024); p += 28 + 1024;
  }
  s.offImages = p; vf_st32(f + p, NIMG); p += 4;
  for (unsigned i = 0; i < NIMG; i++) {
    // cross-field rules: scan-line width = width rounded up to 4; palette index names an existing palette
    uint32_t width = vf_ld32(f + p + 12);
    vf_st32(f + p, (width + 3) & ~3u);
    vf_st16(f + p + 18, 0);
    p += 20;
  }
  s.offAnimHeader = p;
  vf_st32(f + p, NANIM); vf_st32(f + p + 4, (NANIM) * (NFR)); vf_st32(f + p + 8, (NANIM) * (NFR) * (NLAY)); p += 16;
  s.offFirstAnim = p;
  for (unsigned a = 0; a < NANIM; a++) {
    p += 32; vf_st32(f + p, NFR); p += 4;
    for (unsigned k = 0; k < NFR; k++) {
      // both metadata bytes are fully concrete: a symbolic low part would leave the flag bit "unknown" to the symbolic executor, which
      // then explores the (infeasible) other frame layout with symbolic structure
      f[p] = (uint8_t)((NLAY) | (((FFLAGS) & 1) << 7)); f[p + 1] = (uint8_t)(((UBITS) & 0x7F) | ((((FFLAGS) >> 1) & 1) << 7));
      p += FRAME_LEN;
    }
    vf_st32(f + p, NUNK); p += 4 + 16 * (NUNK);
  }
  s.len = p;
  return s;
}
static bool arts_equal(const OP2Utility::ArtFile& a, const OP2Utility::ArtFile& b) {
  using namespace OP2Utility;
  if (a.palettes.size() != b.palettes.size() || a.imageMetas.size() != b.imageMetas.size() || a.animations.size() != b.animations.size()) return false;
  if (a.unknownAnimationCount != b.unknownAnimationCount) return false;
  for (size_t i = 0; i < a.palettes.size(); i++) if (memcmp(&a.palettes[i], &b.palettes[i], 1024) != 0) return false;
  if (a.imageMetas.size() && memcmp(a.imageMetas.data(), b.imageMetas.data(), a.imageMetas.size() * sizeof(ImageMeta)) != 0) return false;
  for (size_t i = 0; i < a.animations.size(); i++) {
    const Animation& x = a.animations[i]; const Animation& y = b.animations[i];
    if (x.unknown != y.unknown || !(x.selectionRect == y.selectionRect) || x.pixelDisplacement.x != y.pixelDisplacement.x || x.pixelDisplacement.y != y.pixelDisplacement.y || x.unknown2 != y.unknown2) return false;
    if (x.frames.size() != y.frames.size() || x.unknownContainer.size() != y.unknownContainer.size()) return false;
    if (x.unknownContainer.size() && memcmp(x.unknownContainer.data(), y.unknownContainer.data(), x.unknownContainer.size() * 16) != 0) return false;
    for (size_t k = 0; k < x.frames.size(); k++) {
      const Animation::Frame& f = x.frames[k]; const Animation::Frame& g = y.frames[k];
      if (memcmp(&f.layerMetadata, &g.layerMetadata, 1) != 0 || memcmp(&f.unknownBitfield, &g.unknownBitfield, 1) != 0) return false;
      if (f.optional1 != g.optional1 || f.optional2 != g.optional2 || f.optional3 != g.optional3 || f.optional4 != g.optional4) return false;
      if (f.layers.size() != g.layers.size() || (f.layers.size() && memcmp(f.layers.data(), g.layers.data(), f.layers.size() * 8) != 0)) return false;
    }
  }
  return true;
}
