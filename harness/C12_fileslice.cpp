// C12: one arbitrary operation on a SliceReader<FileReader> (file slice) in an arbitrary valid state.
// File of FSIZE symbolic bytes in the model file system; slice offset/length symbolic with offset+length <= FSIZE;
// position inside the slice symbolic.  Failed operations must leave position AND later behaviour unchanged
// (checked by reading the rest of the slice afterwards).
#include "vf.h"
#include "Stream/FileReader.h"
#include "Stream/SliceReader.h"
template class std::__cxx11::basic_string<char>;
using namespace OP2Utility;
#ifndef FSIZE
#define FSIZE 6
#endif
#define N FSIZE
static bool g_may_throw;
static Stream::FileSliceReader* g_r; static uint64_t g_pos0, g_len, g_off; static uint8_t* g_file;
static void check_usable(Stream::FileSliceReader& r, uint64_t pos) {
  // later behaviour: position, length, and the remaining bytes are those of the reference cursor
  vf_assert(r.Position() == pos, "position after the operation");
  vf_assert(r.Length() == g_len, "length");
  uint8_t rest[N]; memset(rest, 0, N);
  uint64_t got = r.ReadPartial(rest, N);
  vf_assert(got == g_len - pos, "rest of slice still readable");
  for (uint64_t i = 0; i < N; i++) if (i < got) vf_assert(rest[i] == g_file[g_off + pos + i], "rest bytes");
}
extern "C" void vf_at_throw(void) {
  vf_assert(g_may_throw, "error although the operation fits");
  check_usable(*g_r, g_pos0);
}
extern "C" void h_step(void) {
  uint8_t* f = vfs_data(0); vf_havoc(f, FSIZE); g_file = f;
  vfs_set(0, "f.bin", 1, FSIZE);
  vfs_commit();
  uint64_t off = vf_nondet_u64(), len = vf_nondet_u64();
  vf_assume(off <= FSIZE); vf_assume(len <= FSIZE - off);
  uint64_t pos = vf_nondet_u64(); vf_assume(pos <= len);
  g_may_throw = false;
  Stream::FileReader file("f.bin");
  Stream::FileSliceReader r = file.Slice(off, len);
  r.Seek(pos);
  g_r = &r; g_pos0 = pos; g_len = len; g_off = off;
  uint8_t op = vf_nondet_u8();
  uint64_t k = vf_nondet_u64();
  uint8_t out[N]; memset(out, 0xAA, N);
  VF_TRY {
    uint64_t newpos = pos;
    if (op == 0) {        // Read(k)
      g_may_throw = k > len - pos;
      vf_assume(k <= N || g_may_throw);
      r.Read(out, k);
      vf_assert(!g_may_throw, "read beyond end of slice succeeded");
      for (uint64_t i = 0; i < N; i++) vf_assert(out[i] == (i < k ? f[off + pos + i] : 0xAA), "read bytes");
      newpos = pos + k;
    } else if (op == 1) { // ReadPartial(k)
      uint64_t want = k < len - pos ? k : len - pos;
      uint64_t got = r.ReadPartial(out, k);
      vf_assert(got == want, "partial count is min(requested, remaining)");
      for (uint64_t i = 0; i < N; i++) vf_assert(out[i] == (i < want ? f[off + pos + i] : 0xAA), "partial bytes");
      newpos = pos + want;
    } else if (op == 2) { // SeekForward(k)
      g_may_throw = k > len - pos;
      r.SeekForward(k);
      vf_assert(!g_may_throw, "seek forward beyond slice succeeded");
      newpos = pos + k;
    } else if (op == 3) { // SeekBackward(k)
      g_may_throw = k > pos;
      r.SeekBackward(k);
      vf_assert(!g_may_throw, "seek backward before slice succeeded");
      newpos = pos - k;
    } else if (op == 4) { // Seek(k)
      g_may_throw = k > len;
      r.Seek(k);
      vf_assert(!g_may_throw, "seek beyond slice succeeded");
      newpos = k;
    } else if (op == 5) { // Peek(k)
      g_may_throw = k > len - pos;
      vf_assume(k <= N || g_may_throw);
      r.Peek(out, k);
      vf_assert(!g_may_throw, "peek beyond end succeeded");
      for (uint64_t i = 0; i < N; i++) vf_assert(out[i] == (i < k ? f[off + pos + i] : 0xAA), "peek bytes");
    } else if (op == 6) {
      if (k & 1) { r.SeekBeginning(); newpos = 0; } else { r.SeekEnd(); newpos = len; }
    } else {
      vf_assume(0);
    }
    check_usable(r, newpos);
    VF_WITNESS();
  } VF_CATCH
}
