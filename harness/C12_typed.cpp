// C12: typed read helpers over a MemoryReader at an arbitrary position: size-prefixed containers with signed and
// unsigned prefixes, fixed-size values, NUL-terminated strings with a symbolic maxCount.
#include "vf.h"
#include "Stream/MemoryReader.h"
template class std::__cxx11::basic_string<char>;
using namespace OP2Utility;
#ifndef N
#define N 8
#endif
static bool g_may_throw;
extern "C" void vf_at_throw(void) { vf_assert(g_may_throw, "error although the encoded value fits"); }
extern "C" void h_typed(void) {
  uint8_t buf[N]; vf_havoc(buf, N);
  uint64_t size = vf_nondet_u64(); vf_assume(size <= N);
  uint64_t pos = vf_nondet_u64(); vf_assume(pos <= size);
  Stream::MemoryReader r(buf, size);
  r.position = pos;
  uint64_t rem = size - pos;
  VF_TRY {
#if OP == 0            // Read<uint8_t>(vector<uint8_t>)
    std::vector<uint8_t> v; v.push_back(7);
    uint64_t n = rem >= 1 ? buf[pos] : 0;
    g_may_throw = rem < 1 || n > rem - 1;
    r.Read<uint8_t>(v);
    vf_assert(!g_may_throw, "unsatisfiable size accepted");
    vf_assert(v.size() == n && r.Position() == pos + 1 + n, "consumes prefix + n bytes");
    for (uint64_t i = 0; i < N; i++) if (i < n) vf_assert(v[i] == buf[pos + 1 + i], "container bytes");
#elif OP == 1          // Read<int8_t>(vector<uint16_t>): negative sizes are refused
    std::vector<uint16_t> v;
    int64_t n = rem >= 1 ? (int8_t)buf[pos] : 0;
    g_may_throw = rem < 1 || n < 0 || (uint64_t)n * 2 > rem - 1;
    r.Read<int8_t>(v);
    vf_assert(!g_may_throw, "negative or unsatisfiable size accepted");
    vf_assert(v.size() == (uint64_t)n && r.Position() == pos + 1 + 2 * (uint64_t)n, "consumes prefix + 2n bytes");
    for (uint64_t i = 0; i < N / 2; i++) if (i < (uint64_t)n) vf_assert(v[i] == vf_ld16(buf + pos + 1 + 2 * i), "container elements");
#elif OP == 2          // Read<uint32_t>(std::string): counts near 2^32 must fail, never wrap
    std::string s = "x";
    uint64_t n = rem >= 4 ? vf_ld32(buf + pos) : 0;
    g_may_throw = rem < 4 || n > rem - 4;
    r.Read<uint32_t>(s);
    vf_assert(!g_may_throw, "unsatisfiable size accepted");
    vf_assert(s.size() == n && r.Position() == pos + 4 + n, "consumes prefix + n bytes");
    for (uint64_t i = 0; i < N; i++) if (i < n) vf_assert((uint8_t)s[i] == buf[pos + 4 + i], "string bytes");
#elif OP == 3          // Read<int32_t>(vector<uint32_t>)
    std::vector<uint32_t> v;
    int64_t n = rem >= 4 ? (int32_t)vf_ld32(buf + pos) : 0;
    g_may_throw = rem < 4 || n < 0 || (uint64_t)n * 4 > rem - 4;
    r.Read<int32_t>(v);
    vf_assert(!g_may_throw, "negative or unsatisfiable size accepted");
    vf_assert(v.size() == (uint64_t)n && r.Position() == pos + 4 + 4 * (uint64_t)n, "consumes prefix + 4n bytes");
    for (uint64_t i = 0; i < N / 4; i++) if (i < (uint64_t)n) vf_assert(v[i] == vf_ld32(buf + pos + 4 + 4 * i), "container elements");
#elif OP == 4          // fixed-size value
    uint32_t x = 0;
    g_may_throw = rem < 4;
    r.Read(x);
    vf_assert(!g_may_throw && x == vf_ld32(buf + pos) && r.Position() == pos + 4, "fixed-size value");
#elif OP == 5          // ReadNullTerminatedString(maxCount)
    uint64_t maxc = vf_nondet_u64();
    uint64_t z = 0; while (z < rem && buf[pos + z] != 0) z++;   // distance to the terminator (or rem when there is none)
    bool hasz = z < rem;
    // reads min(maxc, z+1) bytes when enough remain; fails when it runs off the end first
    g_may_throw = !hasz && maxc > rem;
    std::string s = r.ReadNullTerminatedString(maxc);
    vf_assert(!g_may_throw, "string read ran past the end without error");
    uint64_t want = maxc <= z ? maxc : z;
    vf_assert(s.size() == want, "string length");
    vf_assert(r.Position() == pos + (maxc <= z ? maxc : z + 1), "string consumes its characters and terminator");
    for (uint64_t i = 0; i < N; i++) if (i < want) vf_assert((uint8_t)s[i] == buf[pos + i], "string bytes");
#endif
    vf_assert(r.Position() <= r.Length(), "invariant");
    VF_WITNESS();
  } VF_CATCH
}

// Size-prefix kernel: a reader that delivers an arbitrary prefix and then checks the size of the container read that follows.
// The stream is "long enough for anything" and the allocation cap admits every count the prefix type can express, so the only
// thing that can refuse a negative prefix is the helper's own check.
template <class Prefix, unsigned Elem> struct PrefixReader : Stream::Reader {
  int call = 0; int64_t prefix = 0;
  void ReadImplementation(void* buffer, std::size_t size) override {
    call++;
    if (call == 1) { vf_assert(size == sizeof(Prefix), "harness: first read is the prefix"); vf_havoc(buffer, sizeof(Prefix)); Prefix p; memcpy(&p, buffer, sizeof p); prefix = (int64_t)p; }
    else {
      vf_assert(prefix >= 0, "negative size prefix reached the container read");
      vf_assert((uint64_t)size == (uint64_t)prefix * Elem, "container read has prefix x element-size bytes");
      VF_WITNESS();
      vf_end();
    }
  }
  std::size_t ReadPartial(void*, std::size_t) noexcept override { return 0; }
};
// Model of std::vector<T>::_M_default_append for the kernel (redirected at IR level): grows an EMPTY vector to n elements without the
// zero fill (the elements stay arbitrary); the allocation goes through operator new and therefore through the allocation cap.
struct VecRaw { char* start; char* finish; char* eos; };
static void grow(VecRaw* v, uint64_t n, unsigned elem) {
  vf_assert(v->start == v->finish, "harness: model only grows an empty vector");
  if (n > (uint64_t)0x7fffffffffffffff / elem) throw std::length_error("vector::_M_default_append");
  char* p = static_cast<char*>(::operator new(n * elem));
  v->start = p; v->finish = p + n * elem; v->eos = p + n * elem;
}
extern "C" void stub_default_append_u8(VecRaw* v, uint64_t n) { grow(v, n, 1); }
extern "C" void stub_default_append_u16(VecRaw* v, uint64_t n) { grow(v, n, 2); }
extern "C" void stub_default_append_u32(VecRaw* v, uint64_t n) { grow(v, n, 4); }
extern "C" void h_prefix_kernel(void) {
  g_may_throw = true;     // refusing (negative prefix, allocation failure) is fine; accepting a negative prefix is not
  VF_TRY {
#if OP == 0
    PrefixReader<int8_t, 1> r; std::vector<uint8_t> v; r.Read<int8_t>(v);
#elif OP == 1
    PrefixReader<int8_t, 2> r; std::vector<uint16_t> v; r.Read<int8_t>(v);
#elif OP == 2
    PrefixReader<uint8_t, 4> r; std::vector<uint32_t> v; r.Read<uint8_t>(v);
#endif
    vf_assert(0, "harness: unreachable");
  } VF_CATCH
}
