// C01 / C02(direction 1) / C18(vol): pack files into a VOL with the library, reopen it, look at every member.
#include "vol_common.h"
template class std::__cxx11::basic_string<char>;
using namespace OP2Utility;
#ifndef NF
#define NF 2
#endif
#ifndef NAME0
#define NAME0 "b.TXT"
#endif
#ifndef NAME1
#define NAME1 "A.map"
#endif
#ifndef NAME2
#define NAME2 "c_1"
#endif
#ifndef SZ0
#define SZ0 3
#endif
#ifndef SZ1
#define SZ1 0
#endif
#ifndef SZ2
#define SZ2 5
#endif
#ifndef ORD0
#define ORD0 0
#endif
#ifndef ORD1
#define ORD1 1
#endif
#ifndef ORD2
#define ORD2 2
#endif
#ifndef PREFIX
#define PREFIX ""
#endif
#ifndef OUTPATH
#define OUTPATH "out.vol"
#endif
#ifndef OUTFILE
#define OUTFILE "out.vol"
#endif
#ifndef OUT_EXISTS
#define OUT_EXISTS 0
#endif
static const char* NAMES[3] = { NAME0, NAME1, NAME2 };
static const unsigned SIZES[3] = { SZ0, SZ1, SZ2 };
static const int ORDER[3] = { ORD0, ORD1, ORD2 };
static const char* XNAMES[3] = { "x0", "x1", "x2" };
static bool g_may_throw, g_expect_refusal;
extern "C" void vf_at_throw(void) {
  vf_assert(g_may_throw, "error on a valid request");
  if (g_expect_refusal) { vfs_sync(); vf_assert(!vfs_touched(), "creation was refused only after a file had been created or modified"); VF_WITNESS(); }
}
static void setup_inputs() {
  for (int i = 0; i < NF; i++) { vf_havoc(vfs_data(i), SIZES[i]); vfs_set(i, NAMES[i], 1, SIZES[i]); }
  if (OUT_EXISTS) vf_havoc(vfs_data(3), 4);
  vfs_set(3, OUTFILE, OUT_EXISTS, OUT_EXISTS ? 4 : 0);
  for (int i = 0; i < 3; i++) vfs_set(4 + i, XNAMES[i], 0, 0);
  vfs_commit();
}
static std::vector<std::string> listing() {
  std::vector<std::string> l;
  for (int k = 0; k < NF; k++) { std::string p(PREFIX); p.append(NAMES[ORDER[k]]); l.push_back(p); }
  return l;
}
static void sorted_order(int* idx) {   // independent: insertion sort under the reference ordering
  for (int i = 0; i < NF; i++) idx[i] = i;
  for (int i = 1; i < NF; i++) for (int j = i; j > 0 && vc_less(NAMES[idx[j]], NAMES[idx[j - 1]]); j--) { int t = idx[j]; idx[j] = idx[j - 1]; idx[j - 1] = t; }
}

extern "C" void h_pack_roundtrip(void) {
  setup_inputs();
  g_may_throw = false; g_expect_refusal = false;
  VF_TRY {
    Archive::VolFile::CreateArchive(OUTPATH, listing());
    int idx[3]; sorted_order(idx);
    Archive::VolFile v(OUTFILE);
    vf_assert(v.GetCount() == NF, "one member per input");
    for (int i = 0; i < NF; i++) {
      int s = idx[i];
      vf_assert(v.GetName(i) == NAMES[s], "members are named by the final path component, in ascending case-insensitive order");
      vf_assert(v.GetSize(i) == SIZES[s], "member size is the input's exact byte size");
      vf_assert(v.GetCompressionCode(i) == Archive::CompressionType::Uncompressed, "members are stored uncompressed");
      auto st = v.OpenStream(i);
      vf_assert(st->Length() == SIZES[s] && st->Position() == 0, "member stream length");
      uint8_t buf[16]; memset(buf, 0, 16);
      st->Read(buf, SIZES[s]);
      vf_assert(memcmp(buf, vfs_data(s), SIZES[s]) == 0, "member stream returns the input's bytes unchanged");
    }
    vfs_sync();
    for (int i = 0; i < NF; i++) vf_assert(vfs_get_size(i) == SIZES[i] && !vfs_touched_file(i), "inputs are left alone");
    VF_WITNESS();
  } VF_CATCH
}

// extraction of every member to disk, by index and by name
extern "C" void h_pack_extract(void) {
  setup_inputs();
  g_may_throw = false; g_expect_refusal = false;
  VF_TRY {
    Archive::VolFile::CreateArchive(OUTPATH, listing());
    int idx[3]; sorted_order(idx);
    Archive::VolFile v(OUTFILE);
    for (int i = 0; i < NF; i++) { if (i & 1) v.ArchiveFile::ExtractFile(std::string(NAMES[idx[i]]), XNAMES[i]); else v.ExtractFile(i, XNAMES[i]); }
    vfs_sync();
    for (int i = 0; i < NF; i++) {
      int s = idx[i];
      vf_assert(vfs_exists(4 + i) == 1 && vfs_get_size(4 + i) == SIZES[s] && memcmp(vfs_data(4 + i), vfs_data(s), SIZES[s]) == 0, "extraction to disk returns the input's bytes unchanged");
    }
    VF_WITNESS();
  } VF_CATCH
}

// the library's output under the independent format description (C02, first half)
extern "C" void h_pack_format(void) {
  setup_inputs();
  g_may_throw = false; g_expect_refusal = false;
  VF_TRY {
    Archive::VolFile::CreateArchive(OUTPATH, listing());
    vfs_sync();
    int idx[3]; sorted_order(idx);
    VolImage img;
    vol_decode_strict(vfs_data(3), vfs_get_size(3), img);
    vf_assert(img.count == NF, "one index entry per input");
    for (int i = 0; i < NF; i++) {
      int s = idx[i];
      vf_assert(vc_len((const char*)img.m[i].name) == vc_len(NAMES[s]) && memcmp(img.m[i].name, NAMES[s], vc_len(NAMES[s])) == 0, "name table holds the member names in index order");
      vf_assert(img.m[i].size == SIZES[s] && img.m[i].kind == 0x100, "index entry size and kind");
      vf_assert(memcmp(vfs_data(3) + img.m[i].payloadOffset, vfs_data(s), SIZES[s]) == 0, "block payload is the input's bytes");
    }
    VF_WITNESS();
  } VF_CATCH
}

// lookup of member LOOK under the case mask MASK (bit k flips the case of character k, bit 31 adds ./); all masks are enumerated by the driver
#ifndef LOOK
#define LOOK 0
#endif
#ifndef MASK
#define MASK 0
#endif
extern "C" void h_lookup_case(void) {
  setup_inputs();
  g_may_throw = false; g_expect_refusal = false;
  VF_TRY {
    Archive::VolFile::CreateArchive(OUTPATH, listing());
    int idx[3]; sorted_order(idx);
    Archive::VolFile v(OUTFILE);
    int s = idx[LOOK];
    const uint32_t mask = MASK;
    std::string q(NAMES[s]);
    for (size_t k = 0; k < q.size(); k++) if ((mask >> k) & 1) { char c = q[k]; if (c >= 'a' && c <= 'z') q[k] = c - 32; else if (c >= 'A' && c <= 'Z') q[k] = c + 32; }
    if (mask >> 31) q.insert(0, "./");
    vf_assert(v.Contains(q), "membership test succeeds in any letter case, with or without ./");
    vf_assert(v.GetIndex(q) == (size_t)LOOK, "index lookup succeeds in any letter case and names that member");
    auto st = v.ArchiveFile::OpenStream(q);
    vf_assert(st->Length() == SIZES[s], "stream opened by name is that member's");
    VF_WITNESS();
  } VF_CATCH
}

// extract everything with ExtractAllFiles into the current directory (the members overwrite the equally named inputs)
extern "C" void h_extract_all(void) {
  setup_inputs();
  g_may_throw = false; g_expect_refusal = false;
  uint8_t keep[3][16];
  for (int i = 0; i < NF; i++) memcpy(keep[i], vfs_data(i), SIZES[i]);
  VF_TRY {
    Archive::VolFile::CreateArchive(OUTPATH, listing());
    { Archive::VolFile v(OUTFILE); v.ExtractAllFiles("./"); }
    vfs_sync();
    for (int i = 0; i < NF; i++) vf_assert(vfs_exists(i) == 1 && vfs_get_size(i) == SIZES[i] && memcmp(vfs_data(i), keep[i], SIZES[i]) == 0, "ExtractAllFiles writes every member's bytes under its name");
    VF_WITNESS();
  } VF_CATCH
}

// refusals: duplicate names ignoring case, or the output path names one of the inputs
extern "C" void h_pack_refuse(void) {
  setup_inputs();
  g_may_throw = true; g_expect_refusal = true;
  VF_TRY {
    Archive::VolFile::CreateArchive(OUTPATH, listing());
    vf_assert(0, "creation succeeded although it must be refused");
  } VF_CATCH
}
