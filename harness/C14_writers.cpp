// C14: writers write exactly what the history implies and refuse what does not fit.
#include "vf.h"
#include <cstdlib>
#include "Stream/MemoryWriter.h"
#include "Stream/DynamicMemoryWriter.h"
#include "Stream/MemoryReader.h"
#include "Stream/FileReader.h"
#include "Stream/SliceReader.h"
#include "Stream/FileWriter.h"
template class std::__cxx11::basic_string<char>;
using namespace OP2Utility;
#ifndef N
#define N 6
#endif
static bool g_may_throw;
struct Guarded { uint8_t lo[8]; uint8_t buf[N]; uint8_t hi[8]; };
static Guarded g_mem, g_mem0; static Stream::MemoryWriter* g_w; static uint64_t g_off0;
static int g_mode;   // which harness is running (vf_at_throw is shared)
static Stream::DynamicMemoryWriter* g_dw; static uint8_t g_ref[16]; static uint64_t g_reflen;
static void check_dyn() {
  vf_assert(g_dw->Length() == g_reflen && g_dw->Position() == g_reflen, "growing writer length/position");
  Stream::MemoryReader r = g_dw->GetReader();
  vf_assert(r.Length() == g_reflen, "reader length");
  uint8_t out[16]; memset(out, 0, 16);
  uint64_t got = r.ReadPartial(out, 16);
  vf_assert(got == g_reflen, "reading back returns the whole content");
  for (uint64_t i = 0; i < 16; i++) if (i < g_reflen) vf_assert(out[i] == g_ref[i], "growing writer content equals the history");
}
extern "C" void vf_at_throw(void) {
  vf_assert(g_may_throw, "error although the operation fits");
  if (g_mode == 1) {
    vf_assert(g_w->Position() == g_off0, "failed operation moved the writer");
    vf_assert(memcmp(&g_mem, &g_mem0, sizeof g_mem) == 0, "failed operation wrote bytes");
  }
  if (g_mode == 2) check_dyn();
}

// ---- fixed-buffer writer: one arbitrary operation from an arbitrary valid state
extern "C" void h_memwriter_step(void) {
  g_mode = 1;
  vf_havoc(&g_mem, sizeof g_mem); g_mem0 = g_mem;
  uint64_t size = vf_nondet_u64(); vf_assume(size <= N);
  uint64_t off = vf_nondet_u64(); vf_assume(off <= size);
  Stream::MemoryWriter w(g_mem.buf, size); w.offset = off;
  g_w = &w; g_off0 = off;
  uint8_t src[N]; vf_havoc(src, N);
  uint8_t op = vf_nondet_u8(); uint64_t k = vf_nondet_u64();
  VF_TRY {
    uint64_t noff = off, wr = 0;
    if (op == 0) {          // Write(k bytes)
      g_may_throw = k > size - off;
      vf_assume(k <= N || g_may_throw);   // the source has N bytes
      w.Write(src, k);
      vf_assert(!g_may_throw, "write beyond the buffer succeeded");
      noff = off + k; wr = k;
    } else if (op == 1) { g_may_throw = k > size; w.Seek(k); vf_assert(!g_may_throw, "seek beyond the buffer succeeded"); noff = k; }
    else if (op == 2) { g_may_throw = k > size - off; w.SeekForward(k); vf_assert(!g_may_throw, "seek forward beyond the buffer succeeded"); noff = off + k; }
    else if (op == 3) { g_may_throw = k > off; w.SeekBackward(k); vf_assert(!g_may_throw, "seek backward before the buffer succeeded"); noff = off - k; }
    else if (op == 4) { g_may_throw = false; uint32_t v = (uint32_t)k; g_may_throw = 4 > size - off; w.Write(v); vf_assert(!g_may_throw, "typed write beyond the buffer succeeded");
                        memcpy(src, &v, 4); noff = off + 4; wr = 4; }
    else vf_assume(0);
    vf_assert(w.Position() == noff && w.Length() == size, "position after the operation");
    for (uint64_t i = 0; i < N; i++) vf_assert(g_mem.buf[i] == ((i >= off && i < off + wr) ? src[i - off] : g_mem0.buf[i]), "exactly the implied bytes are modified");
    for (int i = 0; i < 8; i++) vf_assert(g_mem.lo[i] == g_mem0.lo[i] && g_mem.hi[i] == g_mem0.hi[i], "guard zones untouched");
    VF_WITNESS();
  } VF_CATCH
}

// ---- growing writer: one arbitrary operation from an arbitrary small state
extern "C" void h_dynwriter_step(void) {
  g_mode = 2; g_may_throw = false;
  Stream::DynamicMemoryWriter w; g_dw = &w;
#ifdef LEN0
  uint64_t len0 = LEN0;
#else
  uint64_t len0 = vf_nondet_u64(); vf_assume(len0 <= 4);
#endif
  vf_havoc(g_ref, 4); g_reflen = len0;
  VF_TRY {
    w.Write(g_ref, len0);
    uint8_t src[4]; vf_havoc(src, 4);
#ifdef DOP
    uint8_t op = DOP;
#else
    uint8_t op = vf_nondet_u8();
#endif
    uint64_t k = vf_nondet_u64();
    if (op == 0) { vf_assume(k <= 4); w.Write(src, k); for (uint64_t i = 0; i < 4; i++) if (i < k) g_ref[g_reflen + i] = src[i]; g_reflen += k; }
    else if (op == 1) {   // SeekForward: zero fill
      g_may_throw = k > 8;                   // growth beyond the model's allocation bound may fail (bad_alloc/length_error), small growth may not
      w.SeekForward(k);
      vf_assert(k <= VF_MAX_ALLOC, "growth beyond the allocation bound succeeded");
      vf_assume(k <= 8);
      for (uint64_t i = 0; i < 8; i++) if (i < k) g_ref[g_reflen + i] = 0; g_reflen += k;
    }
    else if (op == 2) { g_may_throw = k > g_reflen; w.SeekBackward(k); vf_assert(!g_may_throw, "seek backward before the beginning succeeded"); g_reflen -= k; }
    else if (op == 3) {   // Seek: truncate or zero fill
      g_may_throw = k > 12;
      w.Seek(k);
      vf_assert(k <= VF_MAX_ALLOC, "growth beyond the allocation bound succeeded");
      vf_assume(k <= 12);
      for (uint64_t i = 0; i < 12; i++) if (i >= g_reflen && i < k) g_ref[i] = 0; g_reflen = k;
    }
    else if (op == 4) { uint16_t v = (uint16_t)k; w.Write(v); memcpy(g_ref + g_reflen, &v, 2); g_reflen += 2; }
    else vf_assume(0);
    check_dyn();
    VF_WITNESS();
  } VF_CATCH
}

// ---- size-prefixed writes: a writer that only counts, so the container size can be a free 64-bit value
struct CountingWriter : Stream::Writer {
  uint64_t total = 0; uint64_t calls = 0; uint8_t first[8]; uint64_t firstLen = 0;
  void WriteImplementation(const void* b, std::size_t n) override { if (calls == 0) { firstLen = n; if (n <= 8) memcpy(first, b, n); } calls++; total += n; }
};
template <class Prefix, class Elem> static void prefix_case(uint64_t count, uint64_t maxv) {
  Elem* storage = (Elem*)malloc(4 * sizeof(Elem));
  std::vector<Elem> v;
  // a vector of `count` elements without the storage: the counting writer never touches the data
  v._M_impl._M_start = storage; v._M_impl._M_finish = storage + count; v._M_impl._M_end_of_storage = storage + count;
  CountingWriter w;
  g_may_throw = count > maxv;
  w.template Write<Prefix>(v);
  vf_assert(!g_may_throw, "container larger than its size prefix was written");
  Prefix p; memcpy(&p, w.first, sizeof p);
  vf_assert(w.firstLen == sizeof(Prefix) && (uint64_t)p == count, "prefix holds the exact container size");
  vf_assert(w.total == sizeof(Prefix) + count * sizeof(Elem) && w.calls == 2, "prefix followed by exactly the elements");
  v._M_impl._M_start = v._M_impl._M_finish = v._M_impl._M_end_of_storage = nullptr;
  free(storage);
}
#ifndef PFX
#define PFX 0
#endif
extern "C" void h_prefix(void) {
  g_mode = 3;
  uint64_t count = vf_nondet_u64(); vf_assume(count <= (1ull << 40));
  VF_TRY {
#if PFX == 0
    prefix_case<uint8_t, uint8_t>(count, 255);
#elif PFX == 1
    prefix_case<uint16_t, uint8_t>(count, 65535);
#elif PFX == 2
    prefix_case<uint32_t, uint16_t>(count, 0xFFFFFFFFull);
#elif PFX == 3
    prefix_case<int8_t, uint8_t>(count, 127);
#elif PFX == 4
    prefix_case<int32_t, uint32_t>(count, 0x7FFFFFFFull);
#elif PFX == 5
    prefix_case<int16_t, uint8_t>(count, 32767);
#endif
    VF_WITNESS();
  } VF_CATCH
}

// ---- typed writes and typed reads are mutual inverses (small containers, symbolic contents)
#ifndef CNT
#define CNT 2
#endif
extern "C" void h_typed_inverse(void) {
  g_mode = 3; g_may_throw = false;
  VF_TRY {
    Stream::DynamicMemoryWriter w;
    std::vector<uint16_t> a(CNT); vf_havoc(a.data(), CNT * 2);
    std::string s(CNT, 'x'); vf_havoc(&s[0], CNT);
    std::vector<uint32_t> c(CNT); vf_havoc(c.data(), CNT * 4);
    uint32_t scalar = vf_nondet_u32();
    w.Write<uint8_t>(a); w.Write<uint16_t>(s); w.Write(scalar); w.Write<int32_t>(c); w.Write<uint32_t>(a);
    vf_assert(w.Length() == 1 + 2 * CNT + 2 + CNT + 4 + 4 + 4 * CNT + 4 + 2 * CNT, "encoded size");
    Stream::MemoryReader r = w.GetReader();
    std::vector<uint16_t> a2, a3; std::string s2; std::vector<uint32_t> c2; uint32_t scalar2 = 0;
    r.Read<uint8_t>(a2); r.Read<uint16_t>(s2); r.Read(scalar2); r.Read<int32_t>(c2); r.Read<uint32_t>(a3);
    vf_assert(a2 == a && s2 == s && scalar2 == scalar && c2 == c && a3 == a, "typed read returns what the typed write wrote");
    vf_assert(r.Position() == r.Length(), "typed reads consume exactly what typed writes produced");
    VF_WITNESS();
  } VF_CATCH
}

// ---- stream copy: every chunk size, source length, start position, backend
#ifndef CHUNK
#define CHUNK 2
#endif
#ifndef BACKEND
#define BACKEND 0
#endif
extern "C" void h_copy(void) {
  g_mode = 3; g_may_throw = false;
  VF_TRY {
    uint8_t dstbuf[N + 2]; memset(dstbuf, 0xAA, sizeof dstbuf);
    Stream::MemoryWriter w(dstbuf, N + 2);
#if BACKEND == 0
    uint8_t buf[N]; vf_havoc(buf, N);
    uint64_t size = vf_nondet_u64(); vf_assume(size <= N);
    uint64_t pos = vf_nondet_u64(); vf_assume(pos <= size);
    Stream::MemoryReader r(buf, size); r.Seek(pos);
    const uint8_t* src = buf;
#else
    uint8_t* f = vfs_data(0); vf_havoc(f, N); vfs_set(0, "s.bin", 1, N); vfs_commit();
    const uint64_t size = N - (BACKEND == 2 ? 2 : 0);
    uint64_t pos = vf_nondet_u64(); vf_assume(pos <= size);
    Stream::FileReader fr("s.bin");
#if BACKEND == 1
    Stream::FileReader& r = fr;
    const uint8_t* src = f;
#else
    Stream::FileSliceReader r = fr.Slice(1, N - 2);
    const uint8_t* src = f + 1;
#endif
    r.Seek(pos);
#endif
    w.Write<CHUNK>(r);
    vf_assert(w.Position() == size - pos, "copy transfers exactly the remaining bytes");
    for (uint64_t i = 0; i < N + 2; i++) vf_assert(dstbuf[i] == (i < size - pos ? src[pos + i] : 0xAA), "copied bytes equal the source's remaining bytes");
    VF_WITNESS();
  } VF_CATCH
}

// ---- file writer: full matrix of open flags x {exists, does not exist}
extern "C" void h_filewriter(void) {
  g_mode = 3;
  uint8_t* f = vfs_data(0); vf_havoc(f, 3);
  uint8_t old[3]; memcpy(old, f, 3);
  uint8_t exists = vf_nondet_u8() & 1;
  vfs_set(0, "w.bin", exists, 3); vfs_commit();
  uint8_t flags = vf_nondet_u8(); vf_assume(flags < 16);
  using W = Stream::FileWriter;
  bool ce = flags & W::CanOpenExisting, cn = flags & W::CanOpenNew, tr = flags & W::Truncate, ap = flags & W::Append;
  bool refuse = (!ce && !cn) || (tr && ap) || (exists && !ce) || (!exists && !cn);
  g_may_throw = refuse;
  uint8_t nw[2]; vf_havoc(nw, 2);
  bool threw = false;
  try {
    W w("w.bin", (W::OpenMode)flags);
    vf_assert(!refuse, "open succeeded although the flags forbid it");
    vf_assert(w.Position() == ((exists && ap) ? 3u : 0u), "initial position: end when appending to an existing file, otherwise 0");
    w.Write(nw, 2);
  } catch (const std::exception&) { threw = true; }
  vf_assert(threw == refuse, "refusal exactly when the flags say so");
  vfs_sync();
  if (refuse) {
    vf_assert(vfs_exists(0) == (int)exists, "refused open neither creates nor removes the file");
    if (exists) { vf_assert(vfs_get_size(0) == 3 && memcmp(f, old, 3) == 0, "refused open leaves the file contents alone"); vf_assert(!vfs_touched_file(0), "refused open does not touch the file"); }
  } else if (!exists || tr) {
    vf_assert(vfs_exists(0) == 1 && vfs_get_size(0) == 2 && f[0] == nw[0] && f[1] == nw[1], "new or truncated file holds exactly the written bytes");
  } else if (ap) {
    vf_assert(vfs_get_size(0) == 5 && memcmp(f, old, 3) == 0 && f[3] == nw[0] && f[4] == nw[1], "append preserves the old contents and adds the new bytes at the end");
  } else {
    vf_assert(vfs_get_size(0) == 3 && f[0] == nw[0] && f[1] == nw[1] && f[2] == old[2], "open without truncate preserves the old contents; writes overwrite in place");
  }
  VF_WITNESS();
}
