// C20: writers refuse quantities that do not fit their on-disk fields.
#include "vf.h"
#include <cstdlib>
#include "Archive/VolFile.h"
#include "Archive/ClmFile.h"
#include "Map/Map.h"
#include "Sprite/ArtFile.h"
#include "Stream/Writer.h"
template class std::__cxx11::basic_string<char>;
using namespace OP2Utility;
static bool g_may_throw, g_refusal_expected; static int g_mode;
extern "C" void vf_at_throw(void) {
  vf_assert(g_may_throw, "error although every quantity fits its field");
  if (g_mode == 1) { vfs_sync(); vf_assert(!vfs_touched(), "refused only after the destination was created or altered"); }
  if (g_refusal_expected) VF_WITNESS();
}
struct CountingWriter : Stream::Writer {
  uint64_t total = 0, calls = 0; uint8_t first[8]; uint64_t firstLen = 0;
  void WriteImplementation(const void* b, std::size_t n) override { if (calls == 0) { firstLen = n; if (n <= 8) memcpy(first, b, n); } calls++; total += n; }
};

// ---- VOL header preparation with free 64-bit member sizes (file contents are never read)
#ifndef NM
#define NM 2
#endif
static const char* VN[3] = { "a.bin", "b.bin", "c.bin" };
extern "C" void h_vol_prepare(void) {
  g_mode = 1;
  uint64_t sz[3];
  for (int i = 0; i < NM; i++) { sz[i] = vf_nondet_u64(); vfs_set(i, VN[i], 1, sz[i]); }
  vfs_set(3, "out.vol", 0, 0);
#ifdef VF_NATIVE
  for (int i = 0; i < NM; i++) vf_assume(sz[i] <= (1ull << 40));   // sparse files of up to 1 TiB can be materialised for the replay
#endif
  vfs_commit();
  Archive::VolFile::CreateVolumeInfo info;
  for (int i = 0; i < NM; i++) { info.filesToPack.push_back(VN[i]); info.names.push_back(VN[i]); }
  // reference layout in unbounded arithmetic: name table "a.bin\0..." = 6 bytes per name
  uint64_t strl = 6 * NM, pstr = (strl + 7) & ~3ull, pidx = (14ull * NM + 3) & ~3ull;
  uint64_t off = pstr + pidx + 32; bool fits = true;
  uint64_t offs[3];
  for (int i = 0; i < NM; i++) { offs[i] = off; if (sz[i] > 0x7FFFFFFFull || off > 0xFFFFFFFFull) fits = false; off = (off + sz[i] + 11) & ~3ull; }
  g_may_throw = !fits;
  VF_TRY {
    Archive::VolFile::PrepareHeader(info, "out.vol");
    vf_assert(fits, "a member size beyond the 31-bit block length or a block offset beyond 32 bits was accepted");
    for (int i = 0; i < NM; i++) {
      vf_assert((uint64_t)(uint32_t)info.indexEntries[i].fileSize == sz[i], "index entry holds the exact member size");
      vf_assert(info.indexEntries[i].dataBlockOffset == offs[i], "block offsets follow the reference layout");
    }
    vfs_sync(); vf_assert(!vfs_touched(), "header preparation touched a file");
    VF_WITNESS();
  } VF_CATCH
}
// the refusal through the public entry point, member size exactly BIGSZ (concrete): nothing is created
#ifndef BIGSZ
#define BIGSZ 0x80000000ull
#endif
extern "C" void h_vol_create_big(void) {
  g_mode = 1;
  vfs_set(0, VN[0], 1, 3); vf_havoc(vfs_data(0), 3);
  vfs_set(1, VN[1], 1, BIGSZ);
  vfs_set(3, "out.vol", 0, 0);
  vfs_commit();
  g_may_throw = true; g_refusal_expected = true;
  VF_TRY {
    std::vector<std::string> l; l.push_back(VN[0]); l.push_back(VN[1]);
    Archive::VolFile::CreateArchive("out.vol", l);
    vf_assert(0, "archive with an over-long member was created");
  } VF_CATCH
}

// ---- CLM index preparation with free 32-bit data lengths
extern "C" void h_clm_index(void) {
  g_mode = 0;
  std::vector<std::string> names; names.push_back("a"); names.push_back("Track_8c"); names.push_back("c");
  std::vector<Archive::ClmFile::IndexEntry> e(3);
  uint32_t len[3]; for (int i = 0; i < 3; i++) { len[i] = vf_nondet_u32(); e[i].dataLength = len[i]; e[i].dataOffset = 0; }
  uint64_t off = 60 + 3 * 16; bool fits = true; uint64_t offs[3];
  for (int i = 0; i < 3; i++) { offs[i] = off; if (off + len[i] > 0xFFFFFFFFull) fits = false; off += len[i]; }
  g_may_throw = !fits;
  VF_TRY {
    Archive::ClmFile::PrepareIndex(60, names, e);
    vf_assert(fits, "a data offset beyond 32 bits was accepted");
    for (int i = 0; i < 3; i++) vf_assert(e[i].dataOffset == offs[i] && e[i].dataLength == len[i], "offsets follow the reference layout");
    vf_assert(memcmp(e[1].filename.data(), "Track_8c", 8) == 0 && e[0].filename[0] == 'a' && e[0].filename[1] == 0, "names are stored NUL padded");
    VF_WITNESS();
  } VF_CATCH
}

// ---- map container sizes
extern "C" void h_map_container_size(void) {
  g_mode = 0;
  uint64_t n = vf_nondet_u64();
  g_may_throw = n > 0xFFFFFFFFull;
  VF_TRY {
    CountingWriter w;
    Map::WriteContainerSize(w, n);
    vf_assert(n <= 0xFFFFFFFFull, "container size beyond 32 bits accepted");
    vf_assert(w.calls == 1 && w.firstLen == 4 && vf_ld32(w.first) == n, "writes the exact 32-bit size");
    VF_WITNESS();
  } VF_CATCH
}

// ---- PRT frames: layer list of every length 0..130 against every 7-bit count
struct VecRaw { char* start; char* finish; char* eos; };
extern "C" void h_art_frame(void) {
  g_mode = 0;
  Animation::Frame f;
  vf_havoc(&f.layerMetadata, 1); vf_havoc(&f.unknownBitfield, 1);
  f.optional1 = vf_nondet_u8(); f.optional2 = vf_nondet_u8(); f.optional3 = vf_nondet_u8(); f.optional4 = vf_nondet_u8();
  uint64_t n = vf_nondet_u64(); vf_assume(n <= 130);
  char* storage = (char*)malloc(8);
  VecRaw* raw = (VecRaw*)&f.layers;                    // a layer list of n elements; the counting writer never touches the elements
  raw->start = storage; raw->finish = storage + 8 * n; raw->eos = raw->finish;
  uint8_t count = f.layerMetadata.count;
  g_may_throw = count != n;
  VF_TRY {
    CountingWriter w;
    ArtFile::WriteFrame(w, f);
    vf_assert(count == n, "frame whose layer list disagrees with its 7-bit count was written");
    uint64_t opt = (f.layerMetadata.bReadOptionalData ? 2 : 0) + (f.unknownBitfield.bReadOptionalData ? 2 : 0);
    vf_assert(w.total == 2 + opt + 8 * n, "frame occupies header + optional bytes + 8 bytes per layer");
    raw->start = raw->finish = raw->eos = nullptr; free(storage);
    VF_WITNESS();
  } VF_CATCH
}
