// Shared pieces for the VOL harnesses (C01, C02, C05, C17, C18, C20): input-file setup in the model file system,
// an independent VOL decoder (format oracle) and an independent VOL encoder (reference images).
#pragma once
#include "vf.h"
#include "Archive/VolFile.h"
#include "Stream/FileReader.h"
#include "Stream/SliceReader.h"

// ---- independent description of name ordering: case-folded (ASCII) byte-wise comparison, shorter prefix first
static int vc_fold(unsigned char c) { return (c >= 'A' && c <= 'Z') ? c + 32 : c; }
static bool vc_less(const char* a, const char* b) {
  for (size_t i = 0;; i++) {
    if (!a[i] || !b[i]) return !a[i] && b[i];
    int x = vc_fold((unsigned char)a[i]), y = vc_fold((unsigned char)b[i]);
    if (x != y) return x < y;
  }
}
static bool vc_equal_fold(const char* a, const char* b) {
  for (size_t i = 0;; i++) { if (vc_fold((unsigned char)a[i]) != vc_fold((unsigned char)b[i])) return false; if (!a[i]) return true; }
}
static size_t vc_len(const char* a) { size_t n = 0; while (a[n]) n++; return n; }

// ---- format oracle: checks a raw VOL image against the format description; fills in the member table
struct VolMember { const uint8_t* name; uint32_t size; uint16_t kind; uint32_t payloadOffset; };
#define VC_MAXM 4
struct VolImage { unsigned count; VolMember m[VC_MAXM]; };
static uint32_t vc_pad4(uint32_t x) { return (x + 3) & ~3u; }
// strict = image written by the library: every rule of the description must hold
static void vol_decode_strict(const uint8_t* f, uint64_t n, VolImage& out) {
  vf_assert(n >= 32, "format: file holds the fixed header");
  vf_assert(memcmp(f, "VOL ", 4) == 0, "format: VOL tag");
  uint32_t hl = vf_ld32(f + 4); vf_assert(hl >> 31, "format: 4-byte padding flag on VOL section"); hl &= 0x7FFFFFFF;
  vf_assert(memcmp(f + 8, "volh", 4) == 0 && vf_ld32(f + 12) == 0x80000000u, "format: empty volh section");
  vf_assert(memcmp(f + 16, "vols", 4) == 0, "format: vols tag");
  uint32_t sl = vf_ld32(f + 20); vf_assert(sl >> 31, "format: padding flag on vols"); sl &= 0x7FFFFFFF;
  vf_assert(sl % 4 == 0, "format: vols length is padded to 4");
  uint32_t actual = vf_ld32(f + 24);
  vf_assert(actual + 4 <= sl && sl < actual + 4 + 4, "format: vols padded length is the least multiple of 4 holding the length word and the names");
  vf_assert(24 + sl + 8 <= n, "format: voli header inside the file");
  for (uint32_t i = 28 + actual; i < 24 + sl; i++) vf_assert(f[i] == 0, "format: name table padding is zero");
  const uint8_t* vi = f + 24 + sl;
  vf_assert(memcmp(vi, "voli", 4) == 0, "format: voli tag");
  uint32_t il = vf_ld32(vi + 4); vf_assert(il >> 31, "format: padding flag on voli"); il &= 0x7FFFFFFF;
  vf_assert(il % 14 == 0, "format: index length is a whole number of 14-byte entries");
  uint32_t cnt = il / 14; vf_assert(cnt <= VC_MAXM, "harness: member bound");
  uint32_t pil = vc_pad4(il);
  vf_assert(hl == sl + pil + 24, "format: section lengths tile the header exactly");
  uint32_t first = 8 + hl;
  vf_assert(first <= n, "format: header inside the file");
  for (uint32_t i = 32 + sl + il; i < first; i++) vf_assert(f[i] == 0, "format: index padding is zero");
  out.count = cnt;
  uint32_t nameOff = 0, blockOff = first;
  for (uint32_t i = 0; i < cnt; i++) {
    const uint8_t* e = vi + 8 + 14 * i;
    vf_assert(vf_ld32(e) == nameOff, "format: index entry records the offset of its name, names in index order");
    const uint8_t* nm = f + 28 + nameOff;
    uint32_t l = 0; while (nameOff + l < actual && nm[l]) l++;
    vf_assert(nameOff + l < actual, "format: name is NUL-terminated inside the name table");
    nameOff += l + 1;
    uint32_t off = vf_ld32(e + 4), size = vf_ld32(e + 8); uint16_t kind = vf_ld16(e + 12);
    vf_assert(off == blockOff && off % 4 == 0, "format: blocks are contiguous and 4-byte aligned");
    vf_assert((uint64_t)off + 8 + size <= n, "format: block inside the file");
    vf_assert(memcmp(f + off, "VBLK", 4) == 0, "format: block tag");
    vf_assert(vf_ld32(f + off + 4) == (size | 0x80000000u), "format: block length equals the index entry's size");
    for (uint32_t k = off + 8 + size; k < off + 8 + vc_pad4(size); k++) vf_assert(k < n && f[k] == 0, "format: block padding is zero");
    blockOff = off + 8 + vc_pad4(size);
    out.m[i] = VolMember{ nm, size, kind, off + 8 };
    if (i > 0) vf_assert(vc_less((const char*)out.m[i - 1].name, (const char*)nm), "format: names strictly increase under case-insensitive comparison (binary search finds every member)");
  }
  vf_assert(nameOff == actual, "format: name table holds exactly the member names");
  vf_assert(blockOff == n, "format: blocks end exactly at end of file");
}

// ---- reference encoder: image with `cnt` members, `unused` trailing index slots (name offset 0xFFFFFFFF), `extra` more bytes in
// the index section than its entries need (multiple of... any), given kinds; names and payload lengths concrete, payload bytes
// are left as they are in the buffer (symbolic).  Returns the total length.
// size = the size recorded in the index entry; stored = the block length (differs from size for compressed members; default: same)
struct EncMember { const char* name; uint32_t size; uint16_t kind; uint32_t stored = 0xFFFFFFFFu; };
static uint32_t enc_stored(const EncMember& m) { return m.stored == 0xFFFFFFFFu ? m.size : m.stored; }
static uint32_t vol_encode(uint8_t* f, const EncMember* ms, unsigned cnt, unsigned unused, unsigned extra, uint32_t* payloadOffsets) {
  uint32_t actual = 0; for (unsigned i = 0; i < cnt; i++) actual += (uint32_t)vc_len(ms[i].name) + 1;
  uint32_t sl = vc_pad4(actual + 4);
  uint32_t il = 14 * (cnt + unused) + extra, pil = vc_pad4(il);
  uint32_t hl = sl + pil + 24;
  memcpy(f, "VOL ", 4); vf_st32(f + 4, hl | 0x80000000u);
  memcpy(f + 8, "volh", 4); vf_st32(f + 12, 0x80000000u);
  memcpy(f + 16, "vols", 4); vf_st32(f + 20, sl | 0x80000000u); vf_st32(f + 24, actual);
  uint32_t p = 28;
  for (unsigned i = 0; i < cnt; i++) { size_t l = vc_len(ms[i].name); memcpy(f + p, ms[i].name, l + 1); p += (uint32_t)l + 1; }
  while (p < 24 + sl) f[p++] = 0;
  memcpy(f + p, "voli", 4); vf_st32(f + p + 4, il | 0x80000000u); p += 8;
  uint32_t block = 8 + hl, nameOff = 0;
  for (unsigned i = 0; i < cnt; i++) {
    vf_st32(f + p, nameOff); vf_st32(f + p + 4, block); vf_st32(f + p + 8, ms[i].size); vf_st16(f + p + 12, ms[i].kind); p += 14;
    nameOff += (uint32_t)vc_len(ms[i].name) + 1;
    payloadOffsets[i] = block + 8;
    block += 8 + vc_pad4(enc_stored(ms[i]));
  }
  for (unsigned i = 0; i < unused; i++) { vf_st32(f + p, 0xFFFFFFFFu); vf_st32(f + p + 4, 0); vf_st32(f + p + 8, 0); vf_st16(f + p + 12, 0); p += 14; }
  for (unsigned i = 0; i < extra; i++) f[p++] = 0;
  while (p < 8 + hl) f[p++] = 0;
  for (unsigned i = 0; i < cnt; i++) {
    memcpy(f + p, "VBLK", 4); vf_st32(f + p + 4, enc_stored(ms[i]) | 0x80000000u); p += 8;
    p += enc_stored(ms[i]);                                     // payload: left symbolic
    while (p % 4) f[p++] = 0;
  }
  return p;
}
