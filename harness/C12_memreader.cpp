// C12: one arbitrary operation on a MemoryReader in an arbitrary valid state (inductive step).
// State: buffer of N symbolic bytes, streamSize <= N symbolic, position <= streamSize symbolic.
// Operation and its 64-bit argument are symbolic.  Post-condition from a reference cursor model.
#include "vf.h"
#include "Stream/MemoryReader.h"
template class std::__cxx11::basic_string<char>;
using namespace OP2Utility;
#ifndef N
#define N 8
#endif
static bool g_may_throw;
static Stream::MemoryReader* g_r; static uint64_t g_pos0;
extern "C" void vf_at_throw(void) {
  vf_assert(g_may_throw, "error although the operation fits");
  vf_assert(g_r->Position() == g_pos0, "failed operation moved the position");
}
struct Guarded { uint8_t lo[8]; uint8_t buf[N]; uint8_t hi[8]; };
extern "C" void h_step(void) {
  uint8_t buf[N]; vf_havoc(buf, N);
  uint64_t size = vf_nondet_u64(); vf_assume(size <= N);
  uint64_t pos = vf_nondet_u64(); vf_assume(pos <= size);
  Stream::MemoryReader r(buf, size);
  r.position = pos;                       // arbitrary reachable state (invariant: position <= size)
  g_r = &r; g_pos0 = pos;
  uint8_t op = vf_nondet_u8();
  uint64_t k = vf_nondet_u64();
  Guarded out; memset(&out, 0xAA, sizeof out);
  VF_TRY {
    if (op == 0) {        // Read(k)
      g_may_throw = k > size - pos;
      vf_assume(k <= N || g_may_throw);    // the destination has N bytes; larger requests must be refused
      r.Read(out.buf, k);
      vf_assert(!g_may_throw, "read beyond end succeeded");
      vf_assert(r.Position() == pos + k, "read advances by k");
      for (uint64_t i = 0; i < N; i++) vf_assert(out.buf[i] == (i < k ? buf[pos + i] : 0xAA), "read bytes");
    } else if (op == 1) { // ReadPartial(k)
      g_may_throw = false;
      uint64_t want = k < size - pos ? k : size - pos;
      uint64_t got = r.ReadPartial(out.buf, k);
      vf_assert(got == want, "partial count is min(requested, remaining)");
      vf_assert(r.Position() == pos + want, "partial advances by delivered count");
      for (uint64_t i = 0; i < N; i++) vf_assert(out.buf[i] == (i < want ? buf[pos + i] : 0xAA), "partial bytes");
    } else if (op == 2) { // SeekForward(k)
      g_may_throw = k > size - pos;
      r.SeekForward(k);
      vf_assert(!g_may_throw && r.Position() == pos + k, "seek forward");
    } else if (op == 3) { // SeekBackward(k)
      g_may_throw = k > pos;
      r.SeekBackward(k);
      vf_assert(!g_may_throw && r.Position() == pos - k, "seek backward");
    } else if (op == 4) { // Seek(k)
      g_may_throw = k > size;
      r.Seek(k);
      vf_assert(!g_may_throw && r.Position() == k, "seek");
    } else if (op == 5) { // Peek(k)
      g_may_throw = k > size - pos;
      vf_assume(k <= N || g_may_throw);
      r.Peek(out.buf, k);
      vf_assert(!g_may_throw, "peek beyond end succeeded");
      vf_assert(r.Position() == pos, "peek does not move");
      for (uint64_t i = 0; i < N; i++) vf_assert(out.buf[i] == (i < k ? buf[pos + i] : 0xAA), "peek bytes");
    } else if (op == 6) { // SeekBeginning / SeekEnd
      g_may_throw = false;
      if (k & 1) { r.SeekBeginning(); vf_assert(r.Position() == 0, "seek beginning"); }
      else { r.SeekEnd(); vf_assert(r.Position() == size, "seek end"); }
    } else {
      vf_assume(0);
    }
    for (int i = 0; i < 8; i++) vf_assert(out.lo[i] == 0xAA && out.hi[i] == 0xAA, "guard bytes around the destination");
    vf_assert(r.Position() <= r.Length() && r.Length() == size, "invariant position <= length");
    VF_WITNESS();
  } VF_CATCH
}
