// C16: map coordinates address distinct tiles; tile accessors are faithful.
#include "vf.h"
#include "Map/Map.h"
#include "Map/CellType.h"
template class std::__cxx11::basic_string<char>;
using namespace OP2Utility;
static bool g_may_throw;
static Map* g_map; static uint32_t* g_words0; static unsigned g_n;
extern "C" void vf_at_throw(void) {
  vf_assert(g_may_throw, "valid argument refused");
  if (g_map) vf_assert(memcmp(g_map->tiles.data(), g_words0, g_n * 4) == 0, "refused setter changed a tile");
}
// coordinate kernel: all widths 2^5..2^10, heights 1..256, two in-range coordinates
extern "C" void h_index(void) {
  g_may_throw = false; g_map = 0;
  Map m;
  uint32_t lg = vf_nondet_u32(); vf_assume(lg >= 5 && lg <= 10);
  uint32_t h = vf_nondet_u32(); vf_assume(h >= 1 && h <= 256);
  m.widthInTiles = 1u << lg; m.heightInTiles = h;
  uint64_t x1 = vf_nondet_u64(), y1 = vf_nondet_u64(), x2 = vf_nondet_u64(), y2 = vf_nondet_u64();
  vf_assume(x1 < m.widthInTiles && x2 < m.widthInTiles && y1 < h && y2 < h);
  uint64_t i1 = m.GetTileIndex(x1, y1), i2 = m.GetTileIndex(x2, y2);
  vf_assert(i1 < (uint64_t)m.widthInTiles * h, "in-range coordinate addresses a tile inside the array");
  vf_assert(i1 != i2 || (x1 == x2 && y1 == y2), "distinct coordinates address distinct tiles");
  vf_assert(i1 == ((x1 / 32) * h + y1) * 32 + x1 % 32, "32-column block order of the format");
  VF_WITNESS();
}
// accessors on a W x HT map of symbolic tile words
#ifndef LGW
#define LGW 5
#endif
#ifndef HT
#define HT 2
#endif
#ifndef NMAPS
#define NMAPS 4
#endif
#define NT ((1u << LGW) * HT)
#ifndef ACC
#define ACC 0
#endif
extern "C" void h_access(void) {
  static uint32_t words0[NT];
  Map m;
  m.widthInTiles = 1u << LGW; m.heightInTiles = HT;
  m.tiles.resize(NT);
  vf_havoc(m.tiles.data(), NT * 4);
  memcpy(words0, m.tiles.data(), NT * 4);
  m.tileMappings.resize(NMAPS);
  vf_havoc(m.tileMappings.data(), NMAPS * sizeof(TileMapping));
  g_map = &m; g_words0 = words0; g_n = NT;
  uint64_t x = vf_nondet_u64(), y = vf_nondet_u64(); vf_assume(x < (1u << LGW) && y < HT);
  uint64_t idx = ((x >> 5) * HT + y) * 32 + (x & 31);
  uint32_t w = words0[idx];
  g_may_throw = false;
  VF_TRY {
#if ACC == 0      // getters equal the corresponding bits of the serialised word
    vf_assert((uint32_t)m.GetCellType(x, y) == (w & 31), "cell type is bits 0..4 of the tile word");
    vf_assert(m.GetLavaPossible(x, y) == (bool)((w >> 28) & 1), "lava-possible is bit 28 of the tile word");
    vf_assert(m.GetTileMappingIndex(x, y) == ((w >> 5) & 0x7FF), "mapping index is bits 5..15 of the tile word");
    uint32_t mi = (w >> 5) & 0x7FF; vf_assume(mi < NMAPS);
    vf_assert(m.GetTilesetIndex(x, y) == m.tileMappings[mi].tilesetIndex && m.GetImageIndex(x, y) == m.tileMappings[mi].tileGraphicIndex, "tileset and image index are those of the mapping entry the tile refers to");
    vf_assert(m.WidthInTiles() == (1u << LGW) && m.HeightInTiles() == HT && m.TileCount() == NT, "reported dimensions");
#elif ACC == 1    // SetCellType: all 32 values are faithful, everything else is refused without change
    int32_t v = (int32_t)vf_nondet_u32();
    g_may_throw = v < 0 || v > 31;
    m.SetCellType((CellType)v, x, y);
    vf_assert(!g_may_throw, "out-of-range cell type accepted");
    vf_assert((int32_t)m.GetCellType(x, y) == v, "Get(Set(v)) == v for every cell type");
    for (unsigned i = 0; i < NT; i++) { uint32_t now; memcpy(&now, &m.tiles[i], 4); vf_assert(now == (i == idx ? ((w & ~31u) | (uint32_t)v) : words0[i]), "setter changes only the cell-type field of the addressed tile"); }
#elif ACC == 2    // SetLavaPossible
    uint8_t b = vf_nondet_u8() & 1;
    m.SetLavaPossible(b, x, y);
    vf_assert(m.GetLavaPossible(x, y) == (bool)b, "Get(Set(b)) == b");
    for (unsigned i = 0; i < NT; i++) { uint32_t now; memcpy(&now, &m.tiles[i], 4); vf_assert(now == (i == idx ? ((w & ~(1u << 28)) | ((uint32_t)b << 28)) : words0[i]), "setter changes only the lava-possible bit of the addressed tile"); }
#endif
    VF_WITNESS();
  } VF_CATCH
}
