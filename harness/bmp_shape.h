// Shape-templated indexed bitmaps (C08, C09, C11, C18): depth, width, height, palette length concrete; palette and pixel bytes symbolic.
#pragma once
#include "vf.h"
#include "Bitmap/BitmapFile.h"
#include "Stream/MemoryReader.h"
#include "Stream/MemoryWriter.h"
#ifndef BC
#define BC 8
#endif
#ifndef BW
#define BW 3
#endif
#ifndef BH
#define BH 2
#endif
#ifndef USED
#define USED 0          /* usedColorMapEntries field; 0 = full palette */
#endif
#define ABSH ((BH) < 0 ? -(BH) : (BH))
#define PALN ((USED) ? (USED) : (1u << (BC)))
#define ROWBYTES (((BW) * (BC) + 7) / 8)
#define PITCH ((ROWBYTES + 3) & ~3u)
#define BMP_LEN (14 + 40 + PALN * 4 + PITCH * ABSH)
static unsigned build_bmp(uint8_t* f) {
  vf_havoc(f, BMP_LEN);
  f[0] = 'B'; f[1] = 'M'; vf_st32(f + 2, BMP_LEN); vf_st16(f + 6, 0); vf_st16(f + 8, 0); vf_st32(f + 10, 14 + 40 + PALN * 4);
  vf_st32(f + 14, 40); vf_st32(f + 18, (uint32_t)(BW)); vf_st32(f + 22, (uint32_t)(BH)); vf_st16(f + 26, 1); vf_st16(f + 28, BC);
  vf_st32(f + 30, 0); vf_st32(f + 34, 0); vf_st32(f + 38, 0); vf_st32(f + 42, 0); vf_st32(f + 46, USED); vf_st32(f + 50, 0);
  return BMP_LEN;
}
