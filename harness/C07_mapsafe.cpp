// C07: Map and saved-game readers are safe and self-consistent on arbitrary bytes.
#include "map_shape.h"
#include "Stream/BidirectionalReader.h"
template class std::__cxx11::basic_string<char>;
using namespace OP2Utility;
static bool g_may_throw;
extern "C" void vf_at_throw(void) { vf_assert(g_may_throw, "valid map rejected"); }

static bool ref_pow2(uint32_t x) { unsigned n = 0; for (int i = 0; i < 32; i++) n += (x >> i) & 1; return n == 1; }
static void check_consistent(const Map& m) {
  vf_assert(ref_pow2(m.WidthInTiles()), "accepted map: width is a power of two");
  vf_assert((uint64_t)m.TileCount() == (uint64_t)m.WidthInTiles() * (uint64_t)m.HeightInTiles(), "accepted map: tile array has exactly width x height entries");
  for (size_t g = 0; g < m.tileGroups.size(); g++)
    vf_assert((uint64_t)m.tileGroups[g].mappingIndices.size() == (uint64_t)m.tileGroups[g].tileWidth * (uint64_t)m.tileGroups[g].tileHeight, "accepted map: tile group has width x height indices (no overflowed product)");
}

// every prefix: the stream length is symbolic; success implies that nothing the reader consumes was cut off
extern "C" void h_prefix(void) {
  static uint8_t in[MAP_MAXLEN];
  MapShape s = build_map(in);
  uint64_t len = vf_nondet_u64(); vf_assume(len <= s.total);
  g_may_throw = len < s.consumed;
  VF_TRY {
    Stream::MemoryReader r(in, len);
    Map m = Map::ReadMap(r);
    vf_assert(len >= s.consumed, "a proper prefix that cuts into the consumed portion was accepted");
    vf_assert(r.Position() == s.consumed, "consumed length");
    check_consistent(m);
    VF_WITNESS();
  } VF_CATCH
}

// one structural field (FIELD) replaced by a boundary value (VAL, concrete per query), payload symbolic, allocation capped by
// VF_MAX_ALLOC: ordinary error or a consistent map
#ifndef FIELD
#define FIELD 0
#endif
#ifndef VAL
#define VAL 0
#endif
extern "C" void h_field(void) {
  static uint8_t in[MAP_MAXLEN];
  MapShape s = build_map(in);
  const unsigned offs[] = { 8, 12, 16, s.offTs0Len, s.offMapCnt, s.offTerCnt, s.offGrpCnt, s.offG0W, s.offG0H, s.offG0NameLen, 0, s.offAfterTerrain, 4 };
  vf_st32(in + offs[FIELD], (uint32_t)(VAL));
  uint64_t len = s.total;
  g_may_throw = true;          // corrupt input: an ordinary error is always acceptable
  VF_TRY {
    Stream::MemoryReader r(in, len);
    Map m = Map::ReadMap(r);
    check_consistent(m);
    vf_assert(r.Position() <= len, "reader stays inside the stream");
    vf_end();
  } VF_CATCH
}

// Kernel readers: deliver arbitrary bytes for the first reads, check the size of the bulk read that follows against the
// dimensions they delivered (64-bit arithmetic), then end the path.  Every header field is a free 32-bit value.
struct DimsReader : Stream::Reader {
  int call = 0; uint32_t lg = 0, height = 0;
  void ReadImplementation(void* buffer, std::size_t size) override {
    call++;
    if (call == 1) {           // the 20-byte header
      vf_assert(size == 20, "harness: first read is the header");
      vf_havoc(buffer, 20);
      lg = vf_ld32((uint8_t*)buffer + 8); height = vf_ld32((uint8_t*)buffer + 12);
    } else {                   // the tile array
      vf_assert(lg < 32, "log-width >= 32 reached the tile read");
      vf_assert((uint64_t)size == ((uint64_t)height << lg) * 4, "tile array does not have width x height entries (wrapped product)");
      VF_WITNESS();
      vf_end();
    }
  }
  std::size_t ReadPartial(void*, std::size_t) noexcept override { return 0; }
};
extern "C" void h_kernel(void) {
  g_may_throw = true;
  VF_TRY {
    DimsReader r;
    Map m = Map::ReadMap(r);
    vf_assert(0, "harness: unreachable");
  } VF_CATCH
}
struct GroupReader : Stream::Reader {
  int call = 0; uint32_t w = 0, h = 0;
  void ReadImplementation(void* buffer, std::size_t size) override {
    call++;
    if (call <= 2) { vf_assert(size == 4, "harness: width/height reads"); vf_havoc(buffer, 4); (call == 1 ? w : h) = vf_ld32((uint8_t*)buffer); }
    else {
      vf_assert((uint64_t)size == (uint64_t)w * (uint64_t)h * 4, "tile group index array does not have width x height entries (overflowed product)");
      VF_WITNESS();
      vf_end();
    }
  }
  std::size_t ReadPartial(void*, std::size_t) noexcept override { return 0; }
};
extern "C" void h_group_kernel(void) {
  g_may_throw = true;
  VF_TRY {
    GroupReader r;
    TileGroup g = Map::ReadTileGroup(r);
    vf_assert(0, "harness: unreachable");
  } VF_CATCH
}

// ---- saved-game unit section kernel: a reader of arbitrary content that checks every request against the room left in its destination
// object (solver side) and really writes the requested bytes (native side, so that an overrun is seen by the sanitizer).
struct RoomReader : Stream::BidirectionalReader {
  uint64_t pos = 0;
  void ReadImplementation(void* buffer, std::size_t size) override {
    if (vf_nondet_u8() & 1) throw std::runtime_error("room: end of stream");
    vf_assert(size <= vf_buffer_room(buffer), "read request is larger than the object it is read into");
#ifdef VF_NATIVE
    memset(buffer, 0x5A, size);
    if (size <= 64) for (std::size_t i = 0; i < size; i++) ((uint8_t*)buffer)[i] = vf_nondet_u8();
#else
    if (size <= 64) for (std::size_t i = 0; i < size && i < 64; i++) ((uint8_t*)buffer)[i] = vf_nondet_u8();
#endif
    pos += size;
  }
  std::size_t ReadPartial(void*, std::size_t) noexcept override { return 0; }
  uint64_t Length() override { return ~0ull; }
  uint64_t Position() override { return pos; }
  void SeekForward(uint64_t o) override { pos += o; }
  void SeekBackward(uint64_t o) override { pos -= o; }
  void Seek(uint64_t p) override { pos = p; }
};
extern "C" void h_units_kernel(void) {
  g_may_throw = true;
  VF_TRY {
    RoomReader r;
    Map::ReadSavedGameUnits(r);
    VF_WITNESS();
  } VF_CATCH
}

// ---- saved games.  A sparse reader: the window holds the embedded map portion at offset 0x1E025; reads elsewhere deliver
// arbitrary bytes (small reads) or leave the destination untouched (the 2047 x 120-byte unit array etc.); length symbolic.
struct SparseReader : Stream::BidirectionalReader {
  const uint8_t* win; uint64_t base, wlen, length, pos = 0;
  SparseReader(const uint8_t* w, uint64_t b, uint64_t wl, uint64_t len) : win(w), base(b), wlen(wl), length(len) {}
  void ReadImplementation(void* buffer, std::size_t size) override {
    if (size > length - pos) throw std::runtime_error("sparse: read beyond end");
    if (size <= 16) {
      for (std::size_t i = 0; i < size; i++) { uint64_t p = pos + i; ((uint8_t*)buffer)[i] = (p >= base && p - base < wlen) ? win[p - base] : vf_nondet_u8(); }
    } else if (pos >= base && pos - base < wlen) {
      vf_assert(size <= wlen - (pos - base), "harness: large read straddles the window");
      memcpy(buffer, win + (pos - base), size);
    }
    pos += size;
  }
  std::size_t ReadPartial(void* buffer, std::size_t size) noexcept override { std::size_t n = size < length - pos ? size : (std::size_t)(length - pos); pos += n; return n; }
  uint64_t Length() override { return length; }
  uint64_t Position() override { return pos; }
  void SeekForward(uint64_t o) override { if (o > length - pos) throw std::runtime_error("sparse: seek beyond end"); pos += o; }
  void SeekBackward(uint64_t o) override { if (o > pos) throw std::runtime_error("sparse: seek before start"); pos -= o; }
  void Seek(uint64_t p) override { if (p > length) throw std::runtime_error("sparse: seek beyond end"); pos = p; }
};
extern "C" void h_savedgame(void) {
  static uint8_t in[MAP_MAXLEN + 36];
  MapShape s = build_map(in, false);       // map portion: header .. terrain types, first version tag
  // unit section header: unitCount, lastUsed, nextFree, firstFree, sizeOfUnit symbolic; the two object counts are 0 (structural);
  // then next/prev unit index.  The 2047 x 120-byte unit array, the free list and the final version tag lie outside the window.
  uint64_t wlen = s.offAfterTerrain + 4 + 28 + 8;
  vf_havoc(in + s.offAfterTerrain + 4, 36);
  vf_st32(in + s.offAfterTerrain + 4 + 20, 0); vf_st32(in + s.offAfterTerrain + 4 + 24, 0);
  uint64_t len = vf_nondet_u64();
  g_may_throw = true;                      // the unit section is arbitrary: errors are acceptable
  VF_TRY {
    SparseReader sr(in, 0x1E025, wlen, len);
    Map sg = Map::ReadSavedGame(sr);
    check_consistent(sg);
    vf_assert(len >= 0x1E025 + wlen + 2047 * 120 + 4, "a saved game shorter than its content was accepted");
    // the same embedded map portion as a plain map file: header..terrain, version tag twice, zero tile groups
    static uint8_t mapfile[MAP_MAXLEN + 16];
    memcpy(mapfile, in, s.offAfterTerrain + 4);
    memcpy(mapfile + s.offAfterTerrain + 4, in + s.offAfterTerrain, 4);
    vf_st32(mapfile + s.offAfterTerrain + 8, 0); vf_st32(mapfile + s.offAfterTerrain + 12, 0);
    Map mf = Map::ReadMap(Stream::MemoryReader(mapfile, s.offAfterTerrain + 16));
    vf_assert(maps_equal(sg, mf, false), "saved game and map file with the same embedded map portion agree");
    VF_WITNESS();
  } VF_CATCH
}
