// C06: Map read/write round-trips every field and is byte-stable.
#include "map_shape.h"
#include "Stream/MemoryWriter.h"
template class std::__cxx11::basic_string<char>;
using namespace OP2Utility;
static bool g_may_throw;
extern "C" void vf_at_throw(void) { vf_assert(g_may_throw, "error on a well-formed map"); }

// bytes -> ReadMap -> Write -> bytes (== consumed input up to the two normalised words) -> ReadMap -> equal -> Write -> same bytes
extern "C" void h_bytes_roundtrip(void) {
  static uint8_t in[MAP_MAXLEN];
  MapShape s = build_map(in);
  g_may_throw = false;
  VF_TRY {
    Stream::MemoryReader r(in, s.total);
    Map m = Map::ReadMap(r);
    vf_assert(r.Position() == s.consumed, "reader consumes exactly the map and ignores trailing bytes");
    vf_assert(m.WidthInTiles() == (1u << LG) && m.HeightInTiles() == H && m.TileCount() == NTILES, "dimensions");
    vf_assert(m.GetVersionTag() == vf_ld32(in), "version tag");
    vf_assert(m.IsSavedGame() == (vf_ld32(in + 4) != 0), "saved-game flag");
    vf_assert(m.tilesetSources.size() == NTS && m.tileMappings.size() == NMAP && m.terrainTypes.size() == NTER && m.tileGroups.size() == NGRP, "table sizes");
    Stream::DynamicMemoryWriter w1;
    m.Write(w1);
    vf_assert(w1.Length() == s.consumed, "written length equals the consumed length");
    Stream::MemoryReader o1 = w1.GetReader();
    static uint8_t out[MAP_MAXLEN];
    o1.Read(out, s.consumed);
    for (unsigned i = 0; i < MAP_MAXLEN; i++) {
      if (i >= s.consumed) break;
      if (i >= s.offSavedGame && i < s.offSavedGame + 4) continue;
      if (i >= s.offUnknown && i < s.offUnknown + 4) continue;
      vf_assert(out[i] == in[i], "written bytes equal the consumed bytes");
    }
    vf_assert(vf_ld32(out + s.offSavedGame) == (vf_ld32(in + 4) != 0 ? 1u : 0u), "saved-game flag is normalised to 0/1");
    vf_assert(vf_ld32(out + s.offUnknown) == (NGRP ? NGRP - 1 : 0), "the undocumented tile-group word is regenerated");
    Map m2 = Map::ReadMap(w1.GetReader());
    vf_assert(maps_equal(m, m2), "re-read map equals the first in every field");
    Stream::DynamicMemoryWriter w2;
    m2.Write(w2);
    vf_assert(w2.Length() == w1.Length(), "byte-stable length");
    Stream::MemoryReader o2 = w2.GetReader();
    static uint8_t out2[MAP_MAXLEN];
    o2.Read(out2, s.consumed);
    vf_assert(memcmp(out, out2, s.consumed) == 0, "writing is byte-stable");
    VF_WITNESS();
  } VF_CATCH
}

// bytes -> ReadMap -> Write: the written bytes equal the consumed bytes (no second parse, so a writer/reader mismatch shows at once)
extern "C" void h_bytes_write_once(void) {
  static uint8_t in[MAP_MAXLEN];
  MapShape s = build_map(in);
#ifdef SYMMARK
  g_may_throw = true;      // marker and repeated tags are arbitrary: the reader may refuse; what it accepts must be written back unchanged
#else
  g_may_throw = false;
#endif
  VF_TRY {
    Stream::MemoryReader r(in, s.total);
    Map m = Map::ReadMap(r);
    vf_assert(r.Position() == s.consumed, "reader consumes exactly the map and ignores trailing bytes");
    static uint8_t out[MAP_MAXLEN + 16];
    Stream::MemoryWriter w1(out, sizeof out);       // fixed buffer: stays cheap even if a faulty writer makes the output length data dependent
    m.Write(w1);
    vf_assert(w1.Position() == s.consumed, "written length equals the consumed length");
    for (unsigned i = 0; i < MAP_MAXLEN; i++) {
      if (i >= s.consumed) break;
      if (i >= s.offSavedGame && i < s.offSavedGame + 4) continue;
      if (i >= s.offUnknown && i < s.offUnknown + 4) continue;
      vf_assert(out[i] == in[i], "written bytes equal the consumed bytes");
    }
    vf_assert(vf_ld32(out + s.offSavedGame) == (vf_ld32(in + 4) != 0 ? 1u : 0u), "saved-game flag is normalised to 0/1");
    vf_assert(vf_ld32(out + s.offUnknown) == (NGRP ? NGRP - 1 : 0), "the undocumented tile-group word is regenerated");
    VF_WITNESS();
  } VF_CATCH
}

// one public edit with symbolic arguments on an arbitrary map of the shape: the re-read map differs exactly in what the edit names
#ifndef EDIT
#define EDIT 0
#endif
extern "C" void h_edit(void) {
  static uint8_t in[MAP_MAXLEN];
  MapShape s = build_map(in);
  g_may_throw = false;
  VF_TRY {
    Map m = Map::ReadMap(Stream::MemoryReader(in, s.total));
    Map before = m;
    uint64_t x = vf_nondet_u64(), y = vf_nondet_u64(); vf_assume(x < (1u << LG) && y < H);
    uint64_t idx = ((x >> 5) * H + y) * 32 + (x & 31);     // the format's 32-column block order
    uint32_t arg = vf_nondet_u32();
#if EDIT == 0
    vf_assume(arg < 32);
    m.SetCellType((CellType)arg, x, y);
#elif EDIT == 1
    m.SetLavaPossible(arg & 1, x, y);
#elif EDIT == 2
    vf_assume(arg >= 0x1010);
    m.SetVersionTag(arg);
#elif EDIT == 3
    m.TrimTilesetSources();
#endif
    Stream::DynamicMemoryWriter w;
    m.Write(w);
    Map m2 = Map::ReadMap(w.GetReader());
    vf_assert(maps_equal(m, m2), "edited map round-trips");
    // what changed, compared with the map before the edit
    Map expect = before;
#if EDIT == 0
    uint32_t word; memcpy(&word, &expect.tiles[idx], 4); word = (word & ~31u) | arg; memcpy(&expect.tiles[idx], &word, 4);
    vf_assert((unsigned)m2.GetCellType(x, y) == arg, "cell type reads back");
#elif EDIT == 1
    uint32_t word; memcpy(&word, &expect.tiles[idx], 4); word = (word & ~(1u << 28)) | ((arg & 1) << 28); memcpy(&expect.tiles[idx], &word, 4);
    vf_assert(m2.GetLavaPossible(x, y) == (bool)(arg & 1), "lava-possible reads back");
#elif EDIT == 2
    expect.SetVersionTag(arg);
    vf_assert(m2.GetVersionTag() == arg, "version tag reads back");
#elif EDIT == 3
    expect.tilesetSources.clear();
    for (auto& t : before.tilesetSources) if (!(t.numTiles == 0 || t.tilesetFilename.empty())) expect.tilesetSources.push_back(t);
#endif
    vf_assert(maps_equal(expect, m2), "the edit changes exactly what it names");
    VF_WITNESS();
  } VF_CATCH
}

static void build_object(OP2Utility::Map& m, uint32_t& tag);
// object -> Write: the bytes equal an independent encoding of the logical fields (no parse involved)
extern "C" void h_object_bytes(void) {
  Map m; uint32_t tag;
  build_object(m, tag);
  g_may_throw = false;
  VF_TRY {
    static uint8_t ref[MAP_MAXLEN + 16], out[MAP_MAXLEN + 16];
    Stream::MemoryWriter w(out, sizeof out);
    m.Write(w);
    unsigned n = ref_encode_map(m, LG, ref);
    vf_assert(w.Position() == n, "written length equals the reference encoding's");
    for (unsigned i = 0; i < MAP_MAXLEN + 16; i++) { if (i >= n) break; vf_assert(out[i] == ref[i], "written bytes equal the independent encoding of the map's fields"); }
    VF_WITNESS();
  } VF_CATCH
}
// object -> Write -> ReadMap -> equal (all scalar fields symbolic, built directly in memory)
extern "C" void h_object_roundtrip(void) {
  Map m; uint32_t tag;
  build_object(m, tag);
  g_may_throw = tag < 0x1010;    // the reader refuses version tags below the minimum
  VF_TRY {
    Stream::DynamicMemoryWriter w;
    m.Write(w);
    Stream::MemoryReader r = w.GetReader();
    Map m2 = Map::ReadMap(r);
    vf_assert(!g_may_throw, "version tag below the minimum accepted");
    vf_assert(maps_equal(m, m2), "object -> bytes -> object is the identity");
    vf_assert(r.Position() == r.Length(), "the reader consumes everything the writer produced");
    VF_WITNESS();
  } VF_CATCH
}
static void build_object(OP2Utility::Map& m, uint32_t& tag) {
  tag = vf_nondet_u32();
  m.versionTag = tag;
  m.isSavedGame = vf_nondet_u8() & 1;
  m.widthInTiles = 1u << LG; m.heightInTiles = H;
  m.tiles.resize(NTILES);
  if (NTILES) vf_havoc(m.tiles.data(), NTILES * sizeof(Tile));
  vf_havoc(&m.clipRect, sizeof(Rect));
  m.tilesetSources.resize(NTS);
  for (unsigned i = 0; i < NTS; i++) {
    m.tilesetSources[i].tilesetFilename = std::string(TSLEN[i], 'a');
    for (unsigned k = 0; k < TSLEN[i]; k++) m.tilesetSources[i].tilesetFilename[k] = (char)vf_nondet_u8();
    m.tilesetSources[i].numTiles = TSLEN[i] ? vf_nondet_u32() : 0;
  }
  m.tileMappings.resize(NMAP); if (NMAP) vf_havoc(m.tileMappings.data(), NMAP * sizeof(TileMapping));
  m.terrainTypes.resize(NTER); if (NTER) vf_havoc(m.terrainTypes.data(), NTER * sizeof(TerrainType));
  m.tileGroups.resize(NGRP);
  for (unsigned g = 0; g < NGRP; g++) {
    m.tileGroups[g].tileWidth = GW; m.tileGroups[g].tileHeight = GH;
    m.tileGroups[g].mappingIndices.resize(GW * GH); if (GW * GH) vf_havoc(m.tileGroups[g].mappingIndices.data(), GW * GH * 4);
    m.tileGroups[g].name = std::string(GNL, 'g');
    for (unsigned k = 0; k < GNL; k++) m.tileGroups[g].name[k] = (char)vf_nondet_u8();
  }
}

// TrimTilesetSources: emptiness pattern concrete per query (PAT bit i: source i is empty; WHY bit i: because its tile count is 0
// rather than because its name is empty), names and tile counts of the kept sources symbolic bytes / concrete non-zero counts.
#ifndef PAT
#define PAT 0
#endif
#ifndef WHY
#define WHY 0
#endif
extern "C" void h_trim(void) {
  g_may_throw = false;
  VF_TRY {
    Map m;
    m.widthInTiles = 1; m.heightInTiles = 0;
    m.clipRect = Rect{0, 0, 0, 0};
    m.tilesetSources.resize(3);
    for (unsigned i = 0; i < 3; i++) {
      bool empty = (PAT >> i) & 1, byCount = (WHY >> i) & 1;
      unsigned len = (empty && !byCount) ? 0 : 1 + i;
      m.tilesetSources[i].tilesetFilename = std::string(len, 'a');
      for (unsigned k = 0; k < len; k++) m.tilesetSources[i].tilesetFilename[k] = (char)vf_nondet_u8();
      m.tilesetSources[i].numTiles = (empty && byCount) ? 0 : 5 + i;
    }
    Map before = m;
    m.TrimTilesetSources();
    unsigned kept = 0;
    for (unsigned i = 0; i < 3; i++) if (!((PAT >> i) & 1)) {
      vf_assert(kept < m.tilesetSources.size() && m.tilesetSources[kept] == before.tilesetSources[i], "kept sources keep their order, names and counts");
      kept++;
    }
    vf_assert(m.tilesetSources.size() == kept, "exactly the empty sources are removed");
    Stream::DynamicMemoryWriter w;
    m.Write(w);
    Map m2 = Map::ReadMap(w.GetReader());
    vf_assert(maps_equal(m, m2), "trimmed map round-trips");
    VF_WITNESS();
  } VF_CATCH
}
