// C02 (second half) and C05 (VOL part): archives produced by the independent encoder (vol_common.h) are opened by the library.
//   h_read_reference : well-formed reference images (unused trailing slots, any kind per member): same names, sizes, kinds, payloads
//   h_hostile        : one structural field overridden (FIELD/VAL) and/or the file truncated (TRUNC), then every listing / lookup /
//                      stream / extraction call on indices 0..count+1, each in its own try block (full exception mode)
#include "vol_common.h"
#include "Stream/FileWriter.h"
template class std::__cxx11::basic_string<char>;
using namespace OP2Utility;
#ifndef CNT
#define CNT 2
#endif
#ifndef UNUSED
#define UNUSED 0
#endif
#ifndef EXTRA
#define EXTRA 0
#endif
#ifndef RNAME0
#define RNAME0 "a"
#endif
#ifndef RNAME1
#define RNAME1 "Bc.x"
#endif
#ifndef RSZ0
#define RSZ0 2
#endif
#ifndef RSZ1
#define RSZ1 5
#endif
#ifndef STORED0
#define STORED0 0xFFFFFFFFu   /* block length of member 0 when it differs from the size in its index entry (compressed members) */
#endif
#ifndef STORED1
#define STORED1 0xFFFFFFFFu
#endif
#ifndef KIND0
#define KIND0 0x100
#endif
#ifndef KIND1
#define KIND1 0x100
#endif
static const EncMember MS[2] = { { RNAME0, RSZ0, KIND0, STORED0 }, { RNAME1, RSZ1, KIND1, STORED1 } };
static bool g_may_throw;
extern "C" void vf_at_throw(void) { vf_assert(g_may_throw, "well-formed archive rejected"); }

extern "C" void h_read_reference(void) {
  uint8_t* f = vfs_data(0);
  vf_havoc(f, VFS_CAP);
  uint32_t po[2] = { 0, 0 };
  uint32_t n = vol_encode(f, MS, CNT, UNUSED, EXTRA, po);
  vfs_set(0, "r.vol", 1, n);
  vfs_set(1, "x0", 0, 0);
  vfs_commit();
  g_may_throw = false;
  VF_TRY {
    Archive::VolFile v("r.vol");
    vf_assert(v.GetCount() == CNT, "member count (unused trailing slots are not members)");
    vf_assert(v.GetArchiveFileSize() == n, "archive size");
    for (unsigned i = 0; i < CNT; i++) {
      vf_assert(v.GetName(i) == MS[i].name, "member name");
      vf_assert(v.GetSize(i) == MS[i].size, "member size");
      vf_assert((uint16_t)v.GetCompressionCode(i) == MS[i].kind, "member compression kind");
      auto st = v.OpenStream(i);
      vf_assert(st->Length() == enc_stored(MS[i]), "stored payload length is the block's, also when it differs from the size in the index (compressed members)");
      uint8_t buf[16]; memset(buf, 0, 16);
      st->Read(buf, enc_stored(MS[i]));
      vf_assert(memcmp(buf, f + po[i], enc_stored(MS[i])) == 0, "stored payload bytes");
      vf_assert(v.GetIndex(MS[i].name) == i, "lookup by name");
    }
    VF_WITNESS();
  } VF_CATCH
}

// ---------------- hostile images
#ifndef FIELD
#define FIELD -1
#endif
#ifndef VAL
#define VAL 0
#endif
#ifndef TRUNC
#define TRUNC -1
#endif
#ifndef OPSEL
#define OPSEL 0
#endif
struct Snapshot { size_t count; };
extern "C" void h_hostile(void) {
  uint8_t* f = vfs_data(0);
  vf_havoc(f, VFS_CAP);
  uint32_t po[2] = { 0, 0 };
  uint32_t n = vol_encode(f, MS, CNT, UNUSED, EXTRA, po);
  uint32_t sl = vf_ld32(f + 20) & 0x7FFFFFFF;
  const uint32_t voli = 24 + sl, e0 = voli + 8, b0 = CNT ? po[0] - 8 : 0;
  // structural fields that can be overridden
  const uint32_t offs[] = { 4, 12, 20, 24, voli + 4, e0, e0 + 4, e0 + 8, e0 + 12, b0, b0 + 4, 0, 8, 16, voli, e0 + 14, e0 + 18 };
  if (FIELD >= 0) { if (FIELD == 8) vf_st16(f + offs[FIELD], (uint16_t)(VAL)); else vf_st32(f + offs[FIELD], (uint32_t)(VAL)); }
  uint64_t len = TRUNC >= 0 ? (uint64_t)TRUNC : n;
  vfs_set(0, "r.vol", 1, len);
  vfs_set(1, "x0", 0, 0);
  vfs_commit();
  g_may_throw = true;      // hostile input: ordinary errors are fine, at any call
  try {
    Archive::VolFile v("r.vol");
    if (TRUNC >= 0 && FIELD < 0) vf_assert(len >= 8 + (vf_ld32(f + 4) & 0x7FFFFFFF), "archive whose header is cut off was opened");
    size_t count = v.GetCount();
    vf_assert(count <= CNT + UNUSED + 4, "member count exceeds the index section");
    for (size_t i = 0; i < CNT + UNUSED + 2; i++) {
      bool inb = i < count;
      try { std::string nm = v.GetName(i); vf_assert(inb, "out-of-range index accepted by GetName"); vf_assert(nm.size() <= VFS_CAP, "name longer than the file"); } catch (const std::exception&) {}
      try { v.GetSize(i); vf_assert(inb, "out-of-range index accepted by GetSize"); } catch (const std::exception&) {}
      try { v.GetCompressionCode(i); vf_assert(inb, "out-of-range index accepted by GetCompressionCode"); } catch (const std::exception&) {}
      try {
        auto st = v.OpenStream(i);
        vf_assert(inb, "out-of-range index accepted by OpenStream");
        // the stream delivers exactly the file bytes at the extent the archive records (block offset + 8, block length), which lies inside the file
        uint32_t off = vf_ld32(f + e0 + 14 * (uint32_t)i + 4);
        uint32_t blen = vf_ld32(f + off + 4) & 0x7FFFFFFF;
        vf_assert((uint64_t)off + 8 + blen <= len, "member whose recorded extent is not inside the file was delivered");
        vf_assert(st->Length() == blen, "stream length is the recorded block length");
        uint8_t buf[16]; memset(buf, 0, 16);
        uint64_t want = blen < 16 ? blen : 16;
        st->Read(buf, want);
        vf_assert(memcmp(buf, f + off + 8, want) == 0, "stream bytes are the file bytes at the recorded extent");
      } catch (const std::exception&) {}
      if (i < 2) { try { v.ExtractFile(i, "x0"); vf_assert(inb, "out-of-range index accepted by ExtractFile"); } catch (const std::exception&) {} }
    }
    try { bool c = v.Contains(RNAME0); size_t gi = 0; bool found = true; try { gi = v.GetIndex(RNAME0); } catch (const std::exception&) { found = false; } vf_assert(c == found && (!found || gi < count), "Contains and GetIndex agree"); } catch (const std::exception&) {}
    // the object is as usable as before: the listing is unchanged after all the calls above
    vf_assert(v.GetCount() == count, "failed calls changed the member count");
    // ... and every member stream behaves exactly as on a freshly opened archive (failed calls left no trace)
    Archive::VolFile fresh("r.vol");
    vf_assert(fresh.GetCount() == count, "fresh object lists the same members");
    for (size_t i = 0; i < CNT + UNUSED; i++) {
      if (i >= count) break;
      int ok1 = 0, ok2 = 0; uint64_t l1 = 0, l2 = 0; uint8_t b1 = 0, b2 = 0;
      try { auto st = v.OpenStream(i); l1 = st->Length(); if (l1) st->Read(b1); ok1 = 1; } catch (const std::exception&) {}
      try { auto st = fresh.OpenStream(i); l2 = st->Length(); if (l2) st->Read(b2); ok2 = 1; } catch (const std::exception&) {}
      vf_assert(ok1 == ok2 && l1 == l2 && b1 == b2, "after failed calls the archive behaves differently from a freshly opened one");
    }
  } catch (const std::exception&) {}
  VF_WITNESS();
}
