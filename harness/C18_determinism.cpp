// C18: serialised bytes and parsed values depend only on the logical input (self-composition).
// Every scenario is run twice, A and B.  Objects are constructed by placement new inside buffers filled with arbitrary bytes
// (vf_havoc), so "fresh memory holding different garbage" is a symbolic input: any output byte or parsed field that depends on a
// member the code never initialised differs between A and B for some garbage, and the solver finds it.  Heap blocks are
// arbitrary per allocation in the CBMC model as well.  The same harness replays natively with the garbage the solver chose.
#include "map_shape.h"
#include "art_shape.h"
#include "bmp_shape.h"
#include "vol_common.h"
#include "Archive/ClmFile.h"
#include "Sprite/TilesetLoader.h"
#include "Stream/MemoryWriter.h"
#include <new>
template class std::__cxx11::basic_string<char>;
using namespace OP2Utility;
static bool g_may_throw;
extern "C" void vf_at_throw(void) { vf_assert(g_may_throw, "unexpected error"); }
template <class T> struct Garbage { alignas(16) uint8_t raw[sizeof(T)]; Garbage() { vf_havoc(raw, sizeof(T)); } };
static uint8_t g_a[2600], g_b[2600];

extern "C" void h_map_default(void) {
  g_may_throw = false;
  Garbage<Map> ga, gb;
  Map* a = new (ga.raw) Map; Map* b = new (gb.raw) Map;
  VF_TRY {
    Stream::MemoryWriter wa(g_a, sizeof g_a), wb(g_b, sizeof g_b);
    a->Write(wa); b->Write(wb);
    vf_assert(wa.Position() == wb.Position() && memcmp(g_a, g_b, wa.Position()) == 0, "two default-constructed maps serialise to the same bytes whatever the memory held before");
    VF_WITNESS();
  } VF_CATCH
}
extern "C" void h_map_parse(void) {
  g_may_throw = false;
  static uint8_t in[MAP_MAXLEN];
  MapShape s = build_map(in);
  Garbage<Map> ga, gb;
  VF_TRY {
    uint8_t pat = vf_nondet_u8();            // natively run A sees the stack filled with pat.., run B with the complement
    vf_scribble_stack(pat);
    Map* a = new (ga.raw) Map(Map::ReadMap(Stream::MemoryReader(in, s.total)));
    vf_scribble_stack((uint8_t)~pat);
    Map* b = new (gb.raw) Map(Map::ReadMap(Stream::MemoryReader(in, s.total)));
    vf_assert(maps_equal(*a, *b), "the same bytes parse to equal maps");
    Stream::MemoryWriter wa(g_a, sizeof g_a), wb(g_b, sizeof g_b);
    a->Write(wa); b->Write(wb);
    vf_assert(wa.Position() == wb.Position() && memcmp(g_a, g_b, wa.Position()) == 0, "and serialise to the same bytes");
    VF_WITNESS();
  } VF_CATCH
}
extern "C" void h_art_default(void) {
  g_may_throw = false;
  Garbage<ArtFile> ga, gb;
  ArtFile* a = new (ga.raw) ArtFile; ArtFile* b = new (gb.raw) ArtFile;
  VF_TRY {
    Stream::MemoryWriter wa(g_a, sizeof g_a), wb(g_b, sizeof g_b);
    a->Write(wa); b->Write(wb);
    vf_assert(wa.Position() == wb.Position() && memcmp(g_a, g_b, wa.Position()) == 0, "two default-constructed sprite metadata objects serialise to the same bytes whatever the memory held before");
    VF_WITNESS();
  } VF_CATCH
}
extern "C" void h_art_parse(void) {
  g_may_throw = false;
  static uint8_t in[ART_LEN + 4];
  ArtShape s = build_art(in);
  Garbage<ArtFile> ga, gb;
  VF_TRY {
    uint8_t pat = vf_nondet_u8();
    vf_scribble_stack(pat);
    ArtFile* a = new (ga.raw) ArtFile(ArtFile::Read(Stream::MemoryReader(in, s.len)));
    vf_scribble_stack((uint8_t)~pat);
    ArtFile* b = new (gb.raw) ArtFile(ArtFile::Read(Stream::MemoryReader(in, s.len)));
    vf_assert(arts_equal(*a, *b), "the same bytes parse to equal sprite metadata");
    Stream::MemoryWriter wa(g_a, sizeof g_a), wb(g_b, sizeof g_b);
    a->Write(wa); b->Write(wb);
    vf_assert(wa.Position() == wb.Position() && memcmp(g_a, g_b, wa.Position()) == 0, "and serialise to the same bytes");
    VF_WITNESS();
  } VF_CATCH
}
extern "C" void h_bmp(void) {
  g_may_throw = false;
  static uint8_t in[BMP_LEN + 4];
  unsigned n = build_bmp(in);
  Garbage<BitmapFile> ga, gb, gc, gd;
  VF_TRY {
    uint8_t pat = vf_nondet_u8();
    vf_scribble_stack(pat);
    BitmapFile* a = new (ga.raw) BitmapFile(BitmapFile::ReadIndexed(Stream::MemoryReader(in, n)));
    vf_scribble_stack((uint8_t)~pat);
    BitmapFile* b = new (gb.raw) BitmapFile(BitmapFile::ReadIndexed(Stream::MemoryReader(in, n)));
    vf_assert(*a == *b, "the same bytes parse to equal bitmaps");
    Stream::MemoryWriter wa(g_a, sizeof g_a), wb(g_b, sizeof g_b);
    a->WriteIndexed(wa); b->WriteIndexed(wb);
    vf_assert(wa.Position() == wb.Position() && memcmp(g_a, g_b, wa.Position()) == 0, "and serialise to the same bytes");
    BitmapFile* c = new (gc.raw) BitmapFile(BitmapFile::CreateIndexed(BC, BW, BH));
    BitmapFile* d = new (gd.raw) BitmapFile(BitmapFile::CreateIndexed(BC, BW, BH));
    vf_assert(*c == *d, "factory bitmaps of the same parameters are equal whatever the memory held before");
    VF_WITNESS();
  } VF_CATCH
}
// VOL creation: the same two files listed in both orders and spelled with and without ./ give byte-identical archives
extern "C" void h_vol_create(void) {
  g_may_throw = false;
  vf_havoc(vfs_data(0), 3); vfs_set(0, "b.TXT", 1, 3);
  vf_havoc(vfs_data(1), 5); vfs_set(1, "A.map", 1, 5);
  vfs_set(2, "o1.vol", 0, 0); vfs_set(3, "o2.vol", 0, 0);
  vfs_commit();
  VF_TRY {
    std::vector<std::string> l1, l2;
    l1.push_back("b.TXT"); l1.push_back("A.map");
    l2.push_back("./A.map"); l2.push_back("./b.TXT");
    Archive::VolFile::CreateArchive("o1.vol", l1);
    Archive::VolFile::CreateArchive("./o2.vol", l2);
    vfs_sync();
    vf_assert(vfs_get_size(2) == vfs_get_size(3) && memcmp(vfs_data(2), vfs_data(3), vfs_get_size(2)) == 0, "volume bytes do not depend on the listing order or the path spelling");
    VF_WITNESS();
  } VF_CATCH
}
// CLM creation twice and the extracted WAV twice
extern "C" void h_clm_create(void) {
  g_may_throw = false;
  for (int i = 0; i < 2; i++) {
    uint8_t* f = vfs_data(i); vf_havoc(f, VFS_CAP);
    memcpy(f, "RIFF", 4); vf_st32(f + 4, 12 + 8 + 18 + 8 + 3 - 8); memcpy(f + 8, "WAVE", 4); memcpy(f + 12, "fmt ", 4); vf_st32(f + 16, 18);
    if (i == 1) memcpy(f + 20, vfs_data(0) + 20, 18);
    memcpy(f + 38, "data", 4); vf_st32(f + 42, 3);
    vfs_set(i, i == 0 ? "b.wav" : "A.wav", 1, 49);
  }
  vfs_set(2, "o1.clm", 0, 0); vfs_set(3, "o2.clm", 0, 0); vfs_set(4, "x1.wav", 0, 0); vfs_set(5, "x2.wav", 0, 0);
  vfs_commit();
  VF_TRY {
    std::vector<std::string> l1, l2;
    l1.push_back("b.wav"); l1.push_back("A.wav"); l2.push_back("./A.wav"); l2.push_back("b.wav");
    Archive::ClmFile::CreateArchive("o1.clm", l1);
    Archive::ClmFile::CreateArchive("o2.clm", l2);
    { Archive::ClmFile c1("o1.clm"); c1.ExtractFile(1, "x1.wav"); }
    { Archive::ClmFile c2("o2.clm"); c2.ExtractFile(1, "x2.wav"); }
    vfs_sync();
    vf_assert(vfs_get_size(2) == vfs_get_size(3) && memcmp(vfs_data(2), vfs_data(3), vfs_get_size(2)) == 0, "clump bytes do not depend on the listing order or the path spelling");
    vf_assert(vfs_get_size(4) == vfs_get_size(5) && memcmp(vfs_data(4), vfs_data(5), vfs_get_size(4)) == 0, "extracted WAV bytes are a function of the archive only");
    VF_WITNESS();
  } VF_CATCH
}
