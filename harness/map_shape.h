// Shape-templated map byte strings: structural fields (counts, lengths, dimensions) are concrete per query,
// every other byte is symbolic.  Used by C06, C07, C16, C18.
#pragma once
#include "vf.h"
#include "Map/Map.h"
#include "Map/MapHeader.h"
#include "Map/CellType.h"
#include "Stream/MemoryReader.h"
#include "Stream/DynamicMemoryWriter.h"
#ifndef LG
#define LG 1
#endif
#ifndef H
#define H 1
#endif
#ifndef NTS
#define NTS 2
#endif
#ifndef TSL0
#define TSL0 1
#endif
#ifndef TSL1
#define TSL1 0
#endif
#ifndef NMAP
#define NMAP 1
#endif
#ifndef NTER
#define NTER 0
#endif
#ifndef NGRP
#define NGRP 1
#endif
#ifndef GW
#define GW 1
#endif
#ifndef GH
#define GH 2
#endif
#ifndef GNL
#define GNL 1
#endif
#ifndef TRAIL
#define TRAIL 0
#endif
#define NTILES ((unsigned)(H) << (LG))
static const unsigned TSLEN[3] = { TSL0, TSL1, TSL0 };
struct MapShape {
  // offsets of the words the writer is allowed to change
  unsigned offSavedGame, offUnknown, consumed, total, offTiles, offAfterTerrain;
  unsigned offTs0Len, offMapCnt, offTerCnt, offGrpCnt, offG0W, offG0H, offG0NameLen;   // structural fields (0 when absent)
};
#define MAP_MAXLEN (20 + NTILES * 4 + 16 + NTS * (4 + 8 + 4) + 10 + 4 + NMAP * 8 + 4 + NTER * 264 + 8 + 8 + NGRP * (8 + GW * GH * 4 + 4 + GNL) + TRAIL)
// fills buf (MAP_MAXLEN bytes) with a well-formed map of the shape; returns the layout
static MapShape build_map(uint8_t* buf, bool withTail = true) {
  MapShape s; memset(&s, 0, sizeof s); unsigned p = 0;
  vf_havoc(buf, MAP_MAXLEN);
  uint32_t ver = vf_ld32(buf); vf_assume(ver >= 0x1010);
  s.offSavedGame = 4; vf_st32(buf + 8, LG); vf_st32(buf + 12, H); vf_st32(buf + 16, NTS);
  p = 20; s.offTiles = p; p += NTILES * 4; p += 16;
  for (unsigned i = 0; i < NTS; i++) { if (i == 0) s.offTs0Len = p; vf_st32(buf + p, TSLEN[i]); p += 4 + TSLEN[i]; if (TSLEN[i]) p += 4; }
#ifndef SYMMARK
  memcpy(buf + p, "TILE SET\x1a", 10);
#endif
  p += 10;            // with SYMMARK the ten marker bytes stay symbolic: the reader itself decides which it accepts
  s.offMapCnt = p; vf_st32(buf + p, NMAP); p += 4 + NMAP * 8;
  s.offTerCnt = p; vf_st32(buf + p, NTER); p += 4 + NTER * 264;
  s.offAfterTerrain = p;
#ifndef SYMMARK
  vf_st32(buf + p, ver); vf_st32(buf + p + 4, ver);
#endif
  p += 8;             // with SYMMARK the two repeated version tags stay symbolic as well
  if (withTail) {
    s.offGrpCnt = p; vf_st32(buf + p, NGRP); s.offUnknown = p + 4; p += 8;
    for (unsigned g = 0; g < NGRP; g++) { if (g == 0) { s.offG0W = p; s.offG0H = p + 4; } vf_st32(buf + p, GW); vf_st32(buf + p + 4, GH); p += 8 + GW * GH * 4; if (g == 0) s.offG0NameLen = p; vf_st32(buf + p, GNL); p += 4 + GNL; }
  }
  s.consumed = p; s.total = p + TRAIL;
  return s;
}
static bool maps_equal(const OP2Utility::Map& a, const OP2Utility::Map& b, bool withGroups = true) {
  using namespace OP2Utility;
  if (a.GetVersionTag() != b.GetVersionTag() || a.IsSavedGame() != b.IsSavedGame()) return false;
  if (a.WidthInTiles() != b.WidthInTiles() || a.HeightInTiles() != b.HeightInTiles()) return false;
  if (a.tiles.size() != b.tiles.size() || (a.tiles.size() && memcmp(a.tiles.data(), b.tiles.data(), a.tiles.size() * sizeof(Tile)) != 0)) return false;
  if (!(a.clipRect == b.clipRect)) return false;
  if (a.tilesetSources.size() != b.tilesetSources.size()) return false;
  for (size_t i = 0; i < a.tilesetSources.size(); i++) if (a.tilesetSources[i] != b.tilesetSources[i]) return false;
  if (a.tileMappings.size() != b.tileMappings.size() || (a.tileMappings.size() && memcmp(a.tileMappings.data(), b.tileMappings.data(), a.tileMappings.size() * sizeof(TileMapping)) != 0)) return false;
  if (a.terrainTypes.size() != b.terrainTypes.size() || (a.terrainTypes.size() && memcmp(a.terrainTypes.data(), b.terrainTypes.data(), a.terrainTypes.size() * sizeof(TerrainType)) != 0)) return false;
  if (!withGroups) return true;
  if (a.tileGroups.size() != b.tileGroups.size()) return false;
  for (size_t i = 0; i < a.tileGroups.size(); i++) {
    const TileGroup& x = a.tileGroups[i]; const TileGroup& y = b.tileGroups[i];
    if (x.name != y.name || x.tileWidth != y.tileWidth || x.tileHeight != y.tileHeight || x.mappingIndices != y.mappingIndices) return false;
  }
  return true;
}

// Independent encoder of the map format from the logical fields (no library serialisation code): returns the length.
static unsigned ref_encode_map(const OP2Utility::Map& m, uint32_t lgWidth, uint8_t* o) {
  using namespace OP2Utility;
  unsigned p = 0;
  auto w32 = [&](uint32_t v) { vf_st32(o + p, v); p += 4; };
  w32(m.GetVersionTag()); w32(m.IsSavedGame() ? 1 : 0); w32(lgWidth); w32(m.HeightInTiles()); w32((uint32_t)m.tilesetSources.size());
  if (m.tiles.size()) memcpy(o + p, m.tiles.data(), m.tiles.size() * 4); p += (unsigned)m.tiles.size() * 4;
  memcpy(o + p, &m.clipRect, 16); p += 16;
  for (auto& t : m.tilesetSources) { w32((uint32_t)t.tilesetFilename.size()); memcpy(o + p, t.tilesetFilename.data(), t.tilesetFilename.size()); p += (unsigned)t.tilesetFilename.size(); if (t.tilesetFilename.size()) w32(t.numTiles); }
  memcpy(o + p, "TILE SET\x1a", 10); p += 10;
  w32((uint32_t)m.tileMappings.size()); if (m.tileMappings.size()) memcpy(o + p, m.tileMappings.data(), m.tileMappings.size() * 8); p += (unsigned)m.tileMappings.size() * 8;
  w32((uint32_t)m.terrainTypes.size()); if (m.terrainTypes.size()) memcpy(o + p, m.terrainTypes.data(), m.terrainTypes.size() * 264); p += (unsigned)m.terrainTypes.size() * 264;
  w32(m.GetVersionTag()); w32(m.GetVersionTag());
  w32((uint32_t)m.tileGroups.size()); w32(m.tileGroups.empty() ? 0 : (uint32_t)m.tileGroups.size() - 1);
  for (auto& g : m.tileGroups) { w32(g.tileWidth); w32(g.tileHeight); if (g.mappingIndices.size()) memcpy(o + p, g.mappingIndices.data(), g.mappingIndices.size() * 4); p += (unsigned)g.mappingIndices.size() * 4;
    w32((uint32_t)g.name.size()); memcpy(o + p, g.name.data(), g.name.size()); p += (unsigned)g.name.size(); }
  return p;
}
