// C13: slices are confined, independent and equivalent across backends.
#include "vf.h"
#include "Stream/MemoryReader.h"
#include "Stream/FileReader.h"
#include "Stream/SliceReader.h"
template class std::__cxx11::basic_string<char>;
using namespace OP2Utility;
#ifndef N
#define N 6
#endif
static bool g_may_throw;
static Stream::BidirectionalReader* g_parent; static uint64_t g_ppos;
extern "C" void vf_at_throw(void) {
  vf_assert(g_may_throw, "slice refused although it is contained in its parent");
  if (g_parent) vf_assert(g_parent->Position() == g_ppos, "failed slice creation moved the parent");
}
// the slice exposes exactly bytes [s, s+n) of src as positions 0..n and nothing else
static void check_slice(Stream::BidirectionalReader& sl, const uint8_t* src, uint64_t s, uint64_t n) {
  vf_assert(sl.Length() == n, "slice length");
  vf_assert(sl.Position() == 0, "slice starts at 0");
  uint8_t out[N + 2]; memset(out, 0xAA, sizeof out);
  uint64_t got = sl.ReadPartial(out, N + 2);
  vf_assert(got == n, "slice delivers exactly n bytes");
  for (uint64_t i = 0; i < N + 2; i++) vf_assert(out[i] == (i < n ? src[s + i] : 0xAA), "slice bytes are the parent's bytes s..s+n");
  vf_assert(sl.Position() == n, "slice position after reading everything");
}

extern "C" void h_mem_slice(void) {
  uint8_t buf[N]; vf_havoc(buf, N);
  uint64_t size = vf_nondet_u64(); vf_assume(size <= N);
  uint64_t pos = vf_nondet_u64(); vf_assume(pos <= size);
  Stream::MemoryReader r(buf, size); r.position = pos;
  g_parent = &r; g_ppos = pos;
  uint64_t s = vf_nondet_u64(), n = vf_nondet_u64();
  uint8_t form = vf_nondet_u8() & 1;
  VF_TRY {
    if (form == 0) {
      g_may_throw = !(s <= size && n <= size - s);
      Stream::MemoryReader sl = r.Slice(s, n);
      vf_assert(!g_may_throw, "slice not contained in parent was created");
      vf_assert(r.Position() == pos, "two-argument slice leaves the parent position");
      check_slice(sl, buf, s, n);
      vf_assert(r.Position() == pos, "reading the slice does not move the parent");
    } else {
      g_may_throw = !(n <= size - pos);
      Stream::MemoryReader sl = r.Slice(n);
      vf_assert(!g_may_throw, "slice not contained in parent was created");
      vf_assert(r.Position() == pos + n, "slice-at-position advances the parent by n");
      check_slice(sl, buf, pos, n);
      vf_assert(r.Position() == pos + n, "reading the slice does not move the parent");
    }
    VF_WITNESS();
  } VF_CATCH
}

#ifndef DEPTH
#define DEPTH 1
#endif
// file -> slice -> slice -> slice ; the outer levels are arbitrary valid slices, the innermost request is free
extern "C" void h_file_slice(void) {
  uint8_t* f = vfs_data(0); vf_havoc(f, N);
  vfs_set(0, "f.bin", 1, N); vfs_commit();
  g_may_throw = false; g_parent = 0;
  Stream::FileReader file("f.bin");
  uint64_t base = 0, len = N;      // extent of the current parent inside the file
  uint64_t s = vf_nondet_u64(), n = vf_nondet_u64();
  uint8_t form = vf_nondet_u8() & 1;
  VF_TRY {
#if DEPTH == 1
    uint64_t pos = vf_nondet_u64(); vf_assume(pos <= N);
    file.Seek(pos);
    g_parent = &file; g_ppos = pos;
    if (form == 0) {
      g_may_throw = !(s <= len && n <= len - s);
      Stream::FileSliceReader sl = file.Slice(s, n);
      vf_assert(!g_may_throw, "slice not contained in parent was created");
      vf_assert(file.Position() == pos, "two-argument slice leaves the parent position");
      check_slice(sl, f, s, n);
      vf_assert(file.Position() == pos, "reading the slice does not move the parent");
    } else {
      g_may_throw = !(n <= len - pos);
      Stream::FileSliceReader sl = file.Slice(n);
      vf_assert(!g_may_throw, "slice not contained in parent was created");
      vf_assert(file.Position() == pos + n, "slice-at-position advances the parent by n");
      check_slice(sl, f, pos, n);
    }
#else
    uint64_t o1 = vf_nondet_u64(), l1 = vf_nondet_u64(); vf_assume(o1 <= N && l1 <= N - o1);
    Stream::FileSliceReader p1 = file.Slice(o1, l1); base = o1; len = l1;
#if DEPTH == 3
    uint64_t o2 = vf_nondet_u64(), l2 = vf_nondet_u64(); vf_assume(o2 <= len && l2 <= len - o2);
    Stream::FileSliceReader p2 = p1.Slice(o2, l2); base += o2; len = l2;
    Stream::FileSliceReader& par = p2;
#else
    Stream::FileSliceReader& par = p1;
#endif
    uint64_t pos = vf_nondet_u64(); vf_assume(pos <= len);
    par.Seek(pos);
    g_parent = &par; g_ppos = pos;
    if (form == 0) {
      g_may_throw = !(s <= len && n <= len - s);
      Stream::FileSliceReader sl = par.Slice(s, n);
      vf_assert(!g_may_throw, "slice not contained in parent was created");
      vf_assert(par.Position() == pos, "two-argument slice leaves the parent position");
      check_slice(sl, f, base + s, n);
      vf_assert(par.Position() == pos, "reading the slice does not move the parent");
    } else {
      g_may_throw = !(n <= len - pos);
      Stream::FileSliceReader sl = par.Slice(n);
      vf_assert(!g_may_throw, "slice not contained in parent was created");
      vf_assert(par.Position() == pos + n, "slice-at-position advances the parent by n");
      check_slice(sl, f, base + pos, n);
    }
#endif
    VF_WITNESS();
  } VF_CATCH
}

// Independence (inductive step): a file reader, a slice of it, a copy of the slice and a nested slice share one
// file and sit at arbitrary positions; ONE arbitrary in-bounds operation on stream W; afterwards every stream is
// at its own reference cursor and delivers the byte at that cursor.  Covers interleavings of any length.
#ifndef W
#define W 0
#endif
template <class S> static void one_op(S& st, const uint8_t* f, uint64_t base, uint64_t len, uint64_t& cur) {
  uint8_t op = vf_nondet_u8(); vf_assume(op < 5);
  uint64_t k = vf_nondet_u64();
  if (op == 0) { vf_assume(k <= len); st.Seek(k); cur = k; }
  else if (op == 1) {
    vf_assume(k <= 2 && k <= len - cur);
    uint8_t out[2] = { 0, 0 };
    st.Read(out, k);
    for (uint64_t i = 0; i < 2; i++) if (i < k) vf_assert(out[i] == f[base + cur + i], "bytes follow the stream's own cursor");
    cur += k;
  }
  else if (op == 2) { vf_assume(k <= len - cur); st.SeekForward(k); cur += k; }
  else if (op == 3) { vf_assume(k <= cur); st.SeekBackward(k); cur -= k; }
  else { vf_assume(k <= 2); uint8_t out[2]; uint64_t got = st.ReadPartial(out, k); uint64_t want = k < len - cur ? k : len - cur; vf_assert(got == want, "partial count"); cur += want; }
}
template <class S> static void check_at(S& st, const uint8_t* f, uint64_t base, uint64_t len, uint64_t cur) {
  vf_assert(st.Position() == cur, "every stream keeps its own position");
  vf_assert(st.Length() == len, "every stream keeps its own length");
  if (cur < len) { uint8_t b = 0; st.Peek(b); vf_assert(b == f[base + cur], "every stream still delivers the byte at its own cursor"); }
}
extern "C" void h_interleave(void) {
  uint8_t* f = vfs_data(0); vf_havoc(f, N);
  vfs_set(0, "f.bin", 1, N); vfs_commit();
  g_may_throw = false; g_parent = 0;
  VF_TRY {
    Stream::FileReader p("f.bin");
    Stream::FileSliceReader a = p.Slice(1, N - 2);
    Stream::FileSliceReader b(a);
    Stream::FileSliceReader c = a.Slice(1, 2);
    const uint64_t base[4] = { 0, 1, 1, 2 }, len[4] = { N, N - 2, N - 2, 2 };
    uint64_t cur[4];
    for (int j = 0; j < 4; j++) { cur[j] = vf_nondet_u64(); vf_assume(cur[j] <= len[j]); }
    p.Seek(cur[0]); a.Seek(cur[1]); b.Seek(cur[2]); c.Seek(cur[3]);
#if W == 0
    one_op(p, f, base[0], len[0], cur[0]);
#elif W == 1
    one_op(a, f, base[1], len[1], cur[1]);
#elif W == 2
    one_op(b, f, base[2], len[2], cur[2]);
#else
    one_op(c, f, base[3], len[3], cur[3]);
#endif
    check_at(p, f, base[0], len[0], cur[0]); check_at(a, f, base[1], len[1], cur[1]);
    check_at(b, f, base[2], len[2], cur[2]); check_at(c, f, base[3], len[3], cur[3]);
    VF_WITNESS();
  } VF_CATCH
}

#ifndef STEPS
#define STEPS 3
#endif
// Backend equivalence: the same in-bounds operation sequence on a memory reader, a file reader and a slice of a
// larger file observes identical bytes, positions and lengths.
extern "C" void h_backends(void) {
  uint8_t buf[N]; vf_havoc(buf, N);
  uint8_t* f0 = vfs_data(0); memcpy(f0, buf, N); vfs_set(0, "f.bin", 1, N);
  uint8_t* f1 = vfs_data(1); vf_havoc(f1, N + 3); memcpy(f1 + 2, buf, N); vfs_set(1, "g.bin", 1, N + 3);
  vfs_commit();
  g_may_throw = false; g_parent = 0;
  VF_TRY {
    Stream::MemoryReader m(buf, N);
    Stream::MemoryReader big(f1, N + 3);
    Stream::MemoryReader ms = big.Slice(2, N);
    Stream::FileReader fr("f.bin");
    Stream::FileReader gr("g.bin");
    Stream::FileSliceReader fs = gr.Slice(2, N);
    Stream::BidirectionalReader* st[4] = { &m, &ms, &fr, &fs };
    uint64_t cur = 0;
    for (int step = 0; step < STEPS; step++) {
      uint8_t op = vf_nondet_u8(); vf_assume(op < 4);
      uint64_t k = vf_nondet_u64();
      uint8_t out[4][2]; memset(out, 0, sizeof out);
      uint64_t got[4] = { 0, 0, 0, 0 };
      if (op == 0) { vf_assume(k <= N); for (int j = 0; j < 4; j++) st[j]->Seek(k); cur = k; }
      else if (op == 1) { vf_assume(k <= 2 && k <= N - cur); for (int j = 0; j < 4; j++) { st[j]->Read(out[j], k); got[j] = k; } cur += k; }
      else if (op == 2) { vf_assume(k <= cur); for (int j = 0; j < 4; j++) st[j]->SeekBackward(k); cur -= k; }
      else { vf_assume(k <= 2); for (int j = 0; j < 4; j++) got[j] = st[j]->ReadPartial(out[j], k); cur += (k < N - cur ? k : N - cur); }
      for (int j = 0; j < 4; j++) {
        vf_assert(st[j]->Position() == cur && st[j]->Length() == N, "same position and length on every backend");
        vf_assert(got[j] == got[0] && out[j][0] == out[0][0] && out[j][1] == out[0][1], "same bytes on every backend");
      }
    }
    VF_WITNESS();
  } VF_CATCH
}
