// Shared harness interface.  Every harness is ordinary C++ that is
//  (a) compiled by clang to LLVM IR, translated by engine/ir2c to C and executed symbolically by CBMC, and
//  (b) compiled natively (clang++ -fsanitize=address,undefined) against the real sources for replay.
// In (a) the vf_* functions are recognised by ir2c / provided by engine/rt.c; in (b) by engine/vf_native.cpp.
#pragma once
#include <cstdint>
#include <cstddef>
#include <cstring>
#include <string>
#include <vector>
#include <stdexcept>

extern "C" {
  void vf_assert(int cond, const char* what);   // property assertion
  void vf_assume(int cond);                     // restricts the symbolic inputs (listed in evidence)
  uint8_t  vf_nondet_u8(void);
  uint16_t vf_nondet_u16(void);
  uint32_t vf_nondet_u32(void);
  uint64_t vf_nondet_u64(void);
  void vf_havoc(void* p, uint64_t n);           // n arbitrary bytes
  void vf_at_throw(void);                       // defined by the harness: called at every throw (cut mode) / from VF_CATCH
  void vf_end(void);                            // end of path (native: exit 0)
  void vf_scribble_stack(uint8_t pattern);      // native: fill the stack area below with a pattern (no effect in the solver)
  uint64_t vf_buffer_room(const void* p);       // bytes from p to the end of the object p points into (CBMC); natively unknown (UINT64_MAX)
  // symbolic file system (engine/vfs.c; native: files in a scratch directory)
  uint8_t* vfs_data(int i);
  void vfs_set(int i, const char* name, int exists, uint64_t size);
  uint64_t vfs_get_size(int i);
  int vfs_exists(int i);
  int vfs_touched(void);                         // 1 once any file has been created, truncated or written
  int vfs_touched_file(int i);
  void vfs_commit(void);                         // native: materialise the model files on disk
  void vfs_sync(void);                           // native: load the files back into the model
  int vfs_open_read(const char* name, uint64_t len);
}

// The last statement of every success path: CBMC must report this assertion as FAILED (reachability witness);
// the native replay of that trace must get here with every earlier assertion passing.
#define VF_WITNESS() vf_assert(0, "WITNESS")

// try/catch wrapper: in cut mode the path ends at the throw (after vf_at_throw()); natively and in full
// exception mode the handler runs vf_at_throw() and ends the path.
#define VF_TRY try
#define VF_CATCH catch (const std::exception&) { vf_at_throw(); vf_end(); }

static inline uint32_t vf_ld32(const uint8_t* p) { uint32_t v; memcpy(&v, p, 4); return v; }
static inline uint16_t vf_ld16(const uint8_t* p) { uint16_t v; memcpy(&v, p, 2); return v; }
static inline void vf_st32(uint8_t* p, uint32_t v) { memcpy(p, &v, 4); }
static inline void vf_st16(uint8_t* p, uint16_t v) { memcpy(p, &v, 2); }
