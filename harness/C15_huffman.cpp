// C15: the adaptive Huffman tree stays a valid code equal to the reference on every history (one-step induction).
#include "vf.h"
#include "Archive/AdaptiveHuffmanTree.h"
template class std::__cxx11::basic_string<char>;
using namespace OP2Utility::Archive;
#ifndef NSYM
#define NSYM 3
#endif
#define NC (2 * NSYM - 1)
typedef unsigned short u16;
static bool g_may_throw, g_refusal_expected;
static AdaptiveHuffmanTree* g_t; static u16 g_l0[NC], g_c0[NC], g_p0[NC + NSYM];
static bool same_as_before(AdaptiveHuffmanTree& t) {
  return memcmp(t.linkOrData.data(), g_l0, sizeof g_l0) == 0 && memcmp(t.subtreeCount.data(), g_c0, sizeof g_c0) == 0 && memcmp(t.parentIndex.data(), g_p0, sizeof g_p0) == 0;
}
extern "C" void vf_at_throw(void) {
  vf_assert(g_may_throw, "update within capacity refused");
  if (g_refusal_expected) { vf_assert(same_as_before(*g_t), "a refused operation changed the tree"); VF_WITNESS(); }
}
// representation invariant of a valid tree (see the comment block in DESIGN.md / C15)
static bool invariant(const u16* link, const u16* cnt, const u16* par, bool withinCapacity) {
  if (!(link[NC - 1] < NC)) return false;                    // the root is an inner node
  for (unsigned i = 0; i < NC; i++) {
    if (link[i] < NC) {                                      // inner node: children link[i], link[i]+1 sit below it
      if ((link[i] & 1) != 0 || (unsigned)link[i] + 1 >= i) return false;
      if (par[link[i]] != i || par[link[i] + 1] != i) return false;
      if ((unsigned)cnt[i] != (unsigned)cnt[link[i]] + (unsigned)cnt[link[i] + 1]) return false;
      for (unsigned j = 0; j < i; j++) if (link[j] == link[i]) return false;       // child pairs are disjoint
    } else {                                                 // leaf of symbol link[i] - NC
      if (link[i] >= NC + NSYM) return false;
      if (par[link[i]] != i) return false;
      if (cnt[i] < 1) return false;
    }
    if (i + 1 < NC && cnt[i] > cnt[i + 1]) return false;     // sibling property: counts are non-decreasing in node order
  }
  for (unsigned c = 0; c < NSYM; c++) { if (par[NC + c] >= NC) return false; if (link[par[NC + c]] != NC + c) return false; }   // every symbol sits on exactly one leaf
  if (withinCapacity && cnt[NC - 1] == 65535) return false;
  return true;
}
static void load_arbitrary(AdaptiveHuffmanTree& t, bool withinCapacity) {
  vf_havoc(t.linkOrData.data(), sizeof g_l0); vf_havoc(t.subtreeCount.data(), sizeof g_c0); vf_havoc(t.parentIndex.data(), sizeof g_p0);
#ifdef CHAIN
  // deepest possible shape for NSYM symbols (a "caterpillar": every inner node has one leaf child, code lengths up to NSYM-1); which side the
  // inner child sits on at each level, the symbols on the leaves and all counts stay symbolic
  { const u16* l = t.linkOrData.data();
    vf_assume(l[NC - 1] == NC - 3 && l[0] >= NC && l[1] >= NC);
    for (unsigned k = 1; k + 1 < NSYM; k++) vf_assume((l[2 * k] == 2 * (k - 1) && l[2 * k + 1] >= NC) || (l[2 * k + 1] == 2 * (k - 1) && l[2 * k] >= NC)); }
#endif
  vf_assume(invariant(t.linkOrData.data(), t.subtreeCount.data(), t.parentIndex.data(), withinCapacity));
  memcpy(g_l0, t.linkOrData.data(), sizeof g_l0); memcpy(g_c0, t.subtreeCount.data(), sizeof g_c0); memcpy(g_p0, t.parentIndex.data(), sizeof g_p0);
}
// independent reference update (block-leader exchange of the classic adaptive Huffman / LZHUF scheme) on plain arrays
static void ref_update(u16* link, u16* cnt, u16* par, unsigned sym) {
  unsigned c = par[NC + sym];
  for (;;) {
    unsigned k = ++cnt[c];
    if (c == NC - 1) break;
    unsigned l = c;
    while (l + 1 < NC && k > cnt[l + 1]) l++;                // last node of the block of smaller counts
    if (l != c) {
      u16 t = cnt[c]; cnt[c] = cnt[l]; cnt[l] = t;
      u16 a = link[c], b = link[l];
      par[a] = l; if (a < NC) par[a + 1] = l;
      par[b] = c; if (b < NC) par[b + 1] = c;
      link[c] = b; link[l] = a;
      c = l;
    }
    c = par[c];
  }
}
extern "C" void h_update_step(void) {
  AdaptiveHuffmanTree t(NSYM); g_t = &t;
  g_may_throw = false; g_refusal_expected = false;
  load_arbitrary(t, true);
  u16 sym = vf_nondet_u16(); vf_assume(sym < NSYM);
  VF_TRY {
    t.UpdateCodeCount(sym);
    const u16* l = t.linkOrData.data(); const u16* c = t.subtreeCount.data(); const u16* p = t.parentIndex.data();
    vf_assert(invariant(l, c, p, false), "the tree is still a full binary prefix code over its symbol set with the sibling property");
    vf_assert(c[NC - 1] == g_c0[NC - 1] + 1, "root count grows by one");
    for (unsigned s = 0; s < NSYM; s++) vf_assert(c[p[NC + s]] == g_c0[g_p0[NC + s]] + (s == sym ? 1 : 0), "exactly the updated symbol's count grows");
    u16 rl[NC], rc[NC], rp[NC + NSYM];
    memcpy(rl, g_l0, sizeof rl); memcpy(rc, g_c0, sizeof rc); memcpy(rp, g_p0, sizeof rp);
    ref_update(rl, rc, rp, sym);
    vf_assert(memcmp(rl, l, sizeof rl) == 0 && memcmp(rc, c, sizeof rc) == 0 && memcmp(rp, p, sizeof rp) == 0, "tree equals the reference implementation's after the same update");
    VF_WITNESS();
  } VF_CATCH
}
// the encoder's bit string drives the decoder's walk from the root to the symbol's leaf, on an arbitrary valid tree
extern "C" void h_encode_decode(void) {
  AdaptiveHuffmanTree t(NSYM); g_t = &t;
  g_may_throw = false; g_refusal_expected = false;
  load_arbitrary(t, true);
  u16 sym = vf_nondet_u16(); vf_assume(sym < NSYM);
  VF_TRY {
    unsigned bits = 0;
    unsigned s = t.GetEncodedBitString(sym, bits);
    vf_assert(bits >= 1 && bits < NC, "code length");
    u16 node = t.GetRootNodeIndex();
    for (unsigned k = 0; k < NC; k++) {
      if (k >= bits) break;
      vf_assert(!t.IsLeaf(node), "walk reaches a leaf before the bit string is used up");
      node = t.GetChildNode(node, s & 1); s >>= 1;
    }
    vf_assert(t.IsLeaf(node) && t.GetNodeData(node) == sym, "the encoder's bit string leads the decoder to that symbol's leaf");
    VF_WITNESS();
  } VF_CATCH
}
// refusals: update at capacity, out-of-range symbol, out-of-range node: error, tree unchanged
#ifndef REFUSE
#define REFUSE 0
#endif
extern "C" void h_refuse(void) {
  AdaptiveHuffmanTree t(NSYM); g_t = &t;
  load_arbitrary(t, false);
  g_may_throw = true; g_refusal_expected = true;
  VF_TRY {
#if REFUSE == 0
    vf_assume(t.subtreeCount[NC - 1] == 65535);
    u16 sym = vf_nondet_u16(); vf_assume(sym < NSYM);
    t.UpdateCodeCount(sym);
    vf_assert(0, "an update beyond the counters' capacity was accepted");
#elif REFUSE == 1
    u16 sym = vf_nondet_u16(); vf_assume(sym >= NSYM);
    t.UpdateCodeCount(sym);
    vf_assert(0, "an out-of-range symbol was accepted by UpdateCodeCount");
#elif REFUSE == 2
    u16 sym = vf_nondet_u16(); vf_assume(sym >= NSYM); unsigned b = 0;
    t.GetEncodedBitString(sym, b);
    vf_assert(0, "an out-of-range symbol was accepted by GetEncodedBitString");
#else
    u16 node = vf_nondet_u16(); vf_assume(node >= NC);
    uint8_t which = vf_nondet_u8() % 3;
    if (which == 0) t.GetChildNode(node, vf_nondet_u8() & 1); else if (which == 1) t.IsLeaf(node); else t.GetNodeData(node);
    vf_assert(0, "an out-of-range node was accepted");
#endif
  } VF_CATCH
}
// cross-check that the invariant is not too weak/strong: all sequences of K symbolic updates from the initial tree keep it
#ifndef KSEQ
#define KSEQ 3
#endif
extern "C" void h_sequence(void) {
  AdaptiveHuffmanTree t(NSYM); g_t = &t;
  g_may_throw = false; g_refusal_expected = false;
  vf_assert(invariant(t.linkOrData.data(), t.subtreeCount.data(), t.parentIndex.data(), true), "the initial tree satisfies the invariant");
  VF_TRY {
    for (int k = 0; k < KSEQ; k++) { u16 sym = vf_nondet_u16(); vf_assume(sym < NSYM); t.UpdateCodeCount(sym);
      vf_assert(invariant(t.linkOrData.data(), t.subtreeCount.data(), t.parentIndex.data(), true), "invariant along a history from the initial tree"); }
    vf_assert(t.subtreeCount[NC - 1] == NSYM + KSEQ, "root count counts the updates");
    VF_WITNESS();
  } VF_CATCH
}
