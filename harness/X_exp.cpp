#include "vf.h"
template class std::__cxx11::basic_string<char>;
extern "C" void vf_at_throw(void) {}
extern "C" void h_vec(void) {
  uint32_t n = vf_nondet_u32();
  VF_TRY {
    std::vector<uint32_t> v; v.resize(n);
    for (size_t i = 0; i < v.size() * 4 && i < 64; i++) ((uint8_t*)v.data())[i] = vf_nondet_u8();
    vf_assert(v.size() == n, "size");
    VF_WITNESS();
  } VF_CATCH
}
extern "C" void h_str(void) {
  uint32_t n = vf_nondet_u32();
  VF_TRY {
    std::string v; v.resize(n);
    for (size_t i = 0; i < v.size() && i < 64; i++) v[i] = vf_nondet_u8();
    vf_assert(v.size() == n, "size");
    VF_WITNESS();
  } VF_CATCH
}
