// C17: name lookup and resource resolution are case-blind, consistent, loose-file-first.
#include "vol_common.h"
#include "Archive/ClmFile.h"
#include "ResourceManager.h"
#include "XFile.h"
template class std::__cxx11::basic_string<char>;
using namespace OP2Utility;
static bool g_may_throw, g_refusal_expected;
extern "C" void vf_at_throw(void) { vf_assert(g_may_throw, "unexpected error"); if (g_refusal_expected) VF_WITNESS(); }
#ifndef QUERY
#define QUERY "a.txt"
#endif
#ifndef EXPECT
#define EXPECT 0      /* index of the member QUERY names, or -1 */
#endif
static const EncMember MS[2] = { { "a.txt", 2, 0x100 }, { "B.dat", 3, 0x100 } };
static uint32_t g_po[2];
static void put_vol(int slot, const char* name) {
  uint8_t* f = vfs_data(slot); vf_havoc(f, VFS_CAP);
  uint32_t n = vol_encode(f, MS, 2, 1, 0, g_po);
  vfs_set(slot, name, 1, n);
}
static unsigned g_clmData;
static void put_clm(int slot, const char* name) {     // one member "song" (4 bytes of audio) and one member "a" (1 byte)
  uint8_t* f = vfs_data(slot); vf_havoc(f, VFS_CAP);
  memcpy(f, "OP2 Clump File Version 1.0\x1a\0\0\0\0\0", 32);
  const uint8_t unk[6] = { 0, 0, 0, 0, 1, 0 }; memcpy(f + 50, unk, 6);
  vf_st32(f + 56, 2);
  memset(f + 60, 0, 32);
  memcpy(f + 60, "a", 1); vf_st32(f + 68, 92); vf_st32(f + 72, 1);
  memcpy(f + 76, "song", 4); vf_st32(f + 84, 93); vf_st32(f + 88, 4);
  g_clmData = 92;
  vfs_set(slot, name, 1, 97);
}

// one lookup on a VOL and a CLM: Contains <=> GetIndex succeeds, the index names the member, by-name calls reach that member
extern "C" void h_lookup(void) {
  put_vol(0, "r.vol"); put_clm(1, "s.clm");
  vfs_commit();
  g_may_throw = false;
  VF_TRY {
    Archive::VolFile v("r.vol");
    bool c = v.Contains(QUERY);
    bool found = true; size_t gi = 99;
    g_may_throw = EXPECT < 0;         // (queries for non-members run with real exception unwinding)
    try { gi = v.GetIndex(QUERY); } catch (const std::exception&) { found = false; }
    g_may_throw = false;
    vf_assert(c == found, "membership test and index lookup agree");
    vf_assert(found == (EXPECT >= 0), "lookup is insensitive to letter case and a leading ./ and finds exactly the members");
    if (found) {
      vf_assert(gi == (size_t)EXPECT && v.GetName(gi) == MS[EXPECT].name, "the index returned names that member");
      auto st = v.ArchiveFile::OpenStream(std::string(QUERY));
      vf_assert(st->Length() == MS[EXPECT].size, "stream opened by name is that member's");
    }
    for (size_t i = 0; i < 2; i++) vf_assert(v.GetIndex(v.GetName(i)) == i, "looking up the i-th name returns i");
    Archive::ClmFile cl("s.clm");
    vf_assert(cl.GetCount() == 2 && cl.GetName(0) == "a" && cl.GetName(1) == "song", "clm listing");
    vf_assert(cl.Contains("SONG") && cl.GetIndex("./Song") == 1 && !cl.Contains("son") && !cl.Contains("songs"), "clm lookup is case-blind and exact");
    for (size_t i = 0; i < 2; i++) vf_assert(cl.GetIndex(cl.GetName(i)) == i, "looking up the i-th name returns i (clm)");
    VF_WITNESS();
  } VF_CATCH
}
// out-of-range indices are refused by every per-member call (full exception mode)
extern "C" void h_out_of_range(void) {
  put_vol(0, "r.vol"); put_clm(1, "s.clm"); vfs_set(2, "x0", 0, 0);
  vfs_commit();
  g_may_throw = true;
#ifdef OOR
  uint64_t i = OOR;
#else
  uint64_t i = vf_nondet_u64(); vf_assume(i >= 2);
#endif
  Archive::VolFile v("r.vol"); Archive::ClmFile cl("s.clm");
  int refused = 0;
  try { v.GetName(i); } catch (const std::exception&) { refused++; }
  try { v.GetSize(i); } catch (const std::exception&) { refused++; }
  try { v.GetCompressionCode(i); } catch (const std::exception&) { refused++; }
  try { v.OpenStream(i); } catch (const std::exception&) { refused++; }
  try { v.ExtractFile(i, "x0"); } catch (const std::exception&) { refused++; }
  try { cl.GetName(i); } catch (const std::exception&) { refused++; }
  try { cl.GetSize(i); } catch (const std::exception&) { refused++; }
  try { cl.OpenStream(i); } catch (const std::exception&) { refused++; }
  try { cl.ExtractFile(i, "x0"); } catch (const std::exception&) { refused++; }
  vf_assert(refused == 9, "an out-of-range index was accepted by a per-member call");
  vfs_sync(); vf_assert(!vfs_exists(2), "a refused extraction created its output file");
  VF_WITNESS();
}

// resource manager over a directory holding loose files and archives
#ifndef ROOT
#define ROOT ""
#endif
#ifndef RQ
#define RQ "a.txt"
#endif
#ifndef RWANT
#define RWANT 0     /* 0 nothing, 1 loose a.txt, 2 vol member a.txt, 3 vol member B.dat, 4 clm member song, 5 loose c.bin, 6 clm member a */
#endif
#ifndef ARCH
#define ARCH 1
#endif
extern "C" void h_resource(void) {
  put_vol(0, "r.vol"); put_clm(1, "s.clm");
  uint8_t* la = vfs_data(2); vf_havoc(la, 3); vfs_set(2, "a.txt", 1, 3);
  uint8_t* lc = vfs_data(3); vf_havoc(lc, 2); vfs_set(3, "c.bin", 1, 2);
  vfs_set(4, "d.vol", 2, 0);                   // a directory carrying an archive extension: must be ignored
  vfs_set(5, "notes.VOL", 1, 0);               // upper-case extension: not picked up by the case-sensitive directory filter (an empty file would fail to open)
  vfs_commit();
  g_may_throw = false;
  VF_TRY {
    ResourceManager rm(ROOT);
    auto archives = rm.GetArchiveFilenames();
    vf_assert(archives.size() == 2, "exactly the regular files with archive extensions are loaded");
    vf_assert(XFile::GetFilename(archives[0]) == "r.vol" && XFile::GetFilename(archives[1]) == "s.clm", "volumes are loaded before clumps");
    auto st = rm.GetResourceStream(RQ, ARCH);
    const uint8_t* want = 0; uint64_t wl = 0;
    switch (RWANT) {
      case 1: want = la; wl = 3; break; case 2: want = vfs_data(0) + g_po[0]; wl = 2; break; case 3: want = vfs_data(0) + g_po[1]; wl = 3; break;
      case 4: want = vfs_data(1) + 93; wl = 4; break; case 5: want = lc; wl = 2; break; case 6: want = vfs_data(1) + 92; wl = 1; break;
    }
    if (RWANT == 0) vf_assert(st == nullptr, "a name that is neither a loose file nor (with archives enabled) an archive member yields nothing");
    else {
      vf_assert(st != nullptr, "resource not found");
      vf_assert(st->Length() == wl, "resource length");
      uint8_t b[4] = { 0, 0, 0, 0 }; st->Read(b, wl);
      vf_assert(memcmp(b, want, wl) == 0, "loose file first, then archive members in load order");
    }
    std::string where = rm.FindContainingArchivePath(RQ);
    bool inVol = RWANT == 2 || RWANT == 3 || (std::string(RQ) == "a.txt") || (std::string(RQ) == "./a.txt");
    if (!where.empty()) {
      bool contains = XFile::GetFilename(where) == "r.vol" ? Archive::VolFile(where).Contains(RQ) : Archive::ClmFile(where).Contains(RQ);
      vf_assert(contains, "the reported containing archive really contains the name");
    }
    VF_WITNESS();
  } VF_CATCH
}
extern "C" void h_resource_rooted(void) {
  put_vol(0, "r.vol"); put_clm(1, "s.clm");
  vfs_commit();
  g_may_throw = false;
  VF_TRY {
    ResourceManager rm(ROOT);
    g_may_throw = true; g_refusal_expected = true;
    auto st = rm.GetResourceStream("/r.vol", true);
    vf_assert(0, "a rooted path was accepted");
  } VF_CATCH
}
// type listing: loose files of the type, then archive members of the type not already listed (ignoring case)
// two archives with overlapping member names (ignoring case) and no loose file of that name: listed once
static const EncMember MS2[2] = { { "A.TXT", 1, 0x100 }, { "z.txt", 1, 0x100 } };
extern "C" void h_type_listing_two(void) {
  put_vol(0, "r.vol");
  { uint8_t* f = vfs_data(1); vf_havoc(f, VFS_CAP); uint32_t po[2]; uint32_t n = vol_encode(f, MS2, 2, 0, 0, po); vfs_set(1, "t.vol", 1, n); }
  vfs_commit();
  g_may_throw = false;
  VF_TRY {
    ResourceManager rm(ROOT);
    auto txt = rm.GetAllFilenamesOfType(".txt", true);
    // (the order in which the two volumes are loaded is the directory's: do not depend on it)
    int na = 0, nz = 0;
    for (auto& n : txt) { if (vc_equal_fold(n.c_str(), "a.txt")) na++; if (n == "z.txt") nz++; }
    vf_assert(txt.size() == 2 && na == 1 && nz == 1, "a member name found in two archives (ignoring case) is listed once");
    VF_WITNESS();
  } VF_CATCH
}
extern "C" void h_type_listing(void) {
  put_vol(0, "r.vol"); put_clm(1, "s.clm");
  vfs_set(2, "A.TXT", 1, 0); vfs_set(3, "n.txt", 1, 0); vfs_set(4, "c.bin", 1, 0);
  vfs_commit();
  g_may_throw = false;
  VF_TRY {
    ResourceManager rm(ROOT);
    auto txt = rm.GetAllFilenamesOfType(".txt", true);
    // loose: n.txt (the directory filter is case-sensitive: A.TXT does not match ".txt"); archive member a.txt is not a duplicate of n.txt -> listed
    vf_assert(txt.size() == 2 && txt[0] == "n.txt" && txt[1] == "a.txt", "type listing: matching loose files, then archive members not already listed");
    auto up = rm.GetAllFilenamesOfType(".TXT", true);
    // loose: A.TXT; the archive member a.txt equals it ignoring case -> not listed again
    vf_assert(up.size() == 1 && up[0] == "A.TXT", "an archive member appears only if no name already listed equals it ignoring case");
    auto dat = rm.GetAllFilenamesOfType(".dat", true);
    vf_assert(dat.size() == 1 && dat[0] == "B.dat", "archive members are matched by extension ignoring case");
    auto none = rm.GetAllFilenamesOfType(".dat", false);
    vf_assert(none.empty(), "with archive access disabled only loose files are listed");
    VF_WITNESS();
  } VF_CATCH
}

// ---- C05, CLM part: one structural field of a CLM image overridden (CFIELD/CVAL) or the file truncated (CTRUNC); then every
// per-member call for indices 0..count+1, each in its own try block
#ifndef CFIELD
#define CFIELD -1
#endif
#ifndef CVAL
#define CVAL 0
#endif
#ifndef CTRUNC
#define CTRUNC -1
#endif
extern "C" void h_clm_hostile(void) {
  put_clm(1, "s.clm"); vfs_set(2, "x0", 0, 0);
  uint8_t* f = vfs_data(1);
  const uint32_t offs[] = { 0, 50, 56, 68, 72, 84, 88, 60, 32 };
  if (CFIELD >= 0) vf_st32(f + offs[CFIELD], (uint32_t)(CVAL));
  uint64_t len = CTRUNC >= 0 ? (uint64_t)CTRUNC : 97;
  vfs_set(1, "s.clm", 1, len);
  vfs_commit();
  g_may_throw = true;
  try {
    Archive::ClmFile a("s.clm");
    if (CFIELD < 0) vf_assert(len >= 92, "CLM whose header or index is cut off was opened");
    size_t count = a.GetCount();
    vf_assert(count <= (len - 60) / 16, "more members than the index holds");
    for (size_t i = 0; i < 4; i++) {
      bool inb = i < count;
      try { std::string n = a.GetName(i); vf_assert(inb && n.size() <= 8, "out-of-range index accepted by GetName / over-long name"); } catch (const std::exception&) {}
      try { a.GetSize(i); vf_assert(inb, "out-of-range index accepted by GetSize"); } catch (const std::exception&) {}
      try {
        auto st = a.OpenStream(i);
        vf_assert(inb, "out-of-range index accepted by OpenStream");
        uint32_t off = vf_ld32(f + 60 + 16 * (uint32_t)i + 8), dl = vf_ld32(f + 60 + 16 * (uint32_t)i + 12);
        vf_assert((uint64_t)off + dl <= len, "member whose recorded extent is not inside the file was delivered");
        vf_assert(st->Length() == dl, "stream length is the recorded data length");
        uint8_t b[8]; memset(b, 0, 8); uint64_t want = dl < 8 ? dl : 8;
        st->Read(b, want);
        vf_assert(memcmp(b, f + off, want) == 0, "stream bytes are the file bytes at the recorded extent");
      } catch (const std::exception&) {}
      if (i < 2) { try { a.ExtractFile(i, "x0"); vf_assert(inb, "out-of-range index accepted by ExtractFile");
        uint32_t off = vf_ld32(f + 60 + 16 * (uint32_t)i + 8), dl = vf_ld32(f + 60 + 16 * (uint32_t)i + 12);
        vf_assert((uint64_t)off + dl <= len, "extraction of a member whose extent is not inside the file succeeded");
      } catch (const std::exception&) {} }
    }
    vf_assert(a.GetCount() == count, "failed calls changed the member count");
  } catch (const std::exception&) {}
  VF_WITNESS();
}
