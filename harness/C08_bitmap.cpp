// C08: indexed bitmaps read back valid and round-trip pixels, palette, geometry.
#include "bmp_shape.h"
#include <cstdlib>
template class std::__cxx11::basic_string<char>;
using namespace OP2Utility;
static bool g_may_throw;
extern "C" void vf_at_throw(void) { vf_assert(g_may_throw, "error on a valid bitmap"); }

// pitch law for every non-negative width and the three indexed depths
extern "C" void h_pitch(void) {
  g_may_throw = false;
  int32_t w = (int32_t)vf_nondet_u32(); vf_assume(w >= 0);
  uint8_t sel = vf_nondet_u8(); vf_assume(sel < 3);
  uint16_t bc = sel == 0 ? 1 : sel == 1 ? 4 : 8;
  uint64_t p = ImageHeader::CalculatePitch(bc, w), bits = (uint64_t)w * bc;
  vf_assert(p % 4 == 0 && p * 8 >= bits, "pitch is a multiple of four that holds width x depth bits");
  vf_assert(p == 0 ? bits == 0 : (p - 4) * 8 < bits, "pitch is the smallest such multiple");
  vf_assert(ImageHeader::CalcPixelByteWidth(bc, w) == (bits + 7) / 8, "meaningful row bytes");
  VF_WITNESS();
}

static void check_geometry(const BitmapFile& b) {
  b.Validate();
  vf_assert(b.imageHeader.width >= 0, "accepted bitmap has non-negative width");
  vf_assert(b.imageHeader.width == (BW) && b.imageHeader.height == (BH) && b.imageHeader.bitCount == (BC), "geometry fields");
  vf_assert(b.pixels.size() == (size_t)PITCH * ABSH, "exactly |height| rows of pitch bytes");
  vf_assert(b.palette.size() <= (1u << (BC)) && b.palette.size() == PALN, "palette no longer than the depth allows");
}
// bytes -> ReadIndexed -> valid; write -> read preserves width, signed height, depth, palette, meaningful pixel bytes; padding written as zero
extern "C" void h_read_roundtrip(void) {
  static uint8_t in[BMP_LEN + 4];
  unsigned n = build_bmp(in);
  g_may_throw = false;
  VF_TRY {
    BitmapFile b = BitmapFile::ReadIndexed(Stream::MemoryReader(in, n));
    check_geometry(b);
    for (unsigned i = 0; i < PALN; i++) vf_assert(memcmp(&b.palette[i], in + 54 + 4 * i, 4) == 0, "palette entries as stored");
    if (PITCH * ABSH) vf_assert(memcmp(b.pixels.data(), in + 54 + PALN * 4, PITCH * ABSH) == 0, "pixel bytes as stored");
    static uint8_t out[14 + 40 + (1u << (BC)) * 4 + PITCH * ABSH + 8];
    Stream::MemoryWriter w(out, sizeof out);
    b.WriteIndexed(w);
    uint64_t wl = w.Position();
    BitmapFile c = BitmapFile::ReadIndexed(Stream::MemoryReader(out, wl));
    c.Validate();
    vf_assert(c.imageHeader.width == (BW) && c.imageHeader.height == (BH) && c.imageHeader.bitCount == (BC), "write/read preserves width, signed height and bit depth");
    vf_assert(c.palette.size() >= b.palette.size(), "written palette can be read back");
    for (unsigned i = 0; i < PALN; i++) vf_assert(c.palette[i] == b.palette[i], "write/read preserves every palette entry");
    vf_assert(c.pixels.size() == b.pixels.size(), "write/read preserves the pixel container size");
    for (unsigned y = 0; y < ABSH; y++) for (unsigned x = 0; x < PITCH; x++) {
      if (x < ROWBYTES) vf_assert(c.pixels[y * PITCH + x] == b.pixels[y * PITCH + x], "write/read preserves every pixel byte inside the rows' meaningful width");
      else vf_assert(c.pixels[y * PITCH + x] == 0, "row padding is written as zero");
    }
    VF_WITNESS();
  } VF_CATCH
}
// factory objects round-trip to an equal object
extern "C" void h_factory_roundtrip(void) {
  g_may_throw = false;
  VF_TRY {
    std::vector<Color> pal(1u << (BC)); vf_havoc(pal.data(), pal.size() * 4);
    std::vector<uint8_t> px((size_t)PITCH * ABSH);
    if (px.size()) vf_havoc(px.data(), px.size());
    for (unsigned y = 0; y < ABSH; y++) for (unsigned x = ROWBYTES; x < PITCH; x++) px[y * PITCH + x] = 0;   // padding of an in-memory bitmap is zero
    BitmapFile b = BitmapFile::CreateIndexed(BC, BW, BH, pal, px);
    b.Validate();
    static uint8_t out[BMP_LEN + 8];
    Stream::MemoryWriter w(out, sizeof out);
    b.WriteIndexed(w);
    vf_assert(w.Position() == 14 + 40 + (1u << (BC)) * 4 + PITCH * ABSH, "written size");
    BitmapFile c = BitmapFile::ReadIndexed(Stream::MemoryReader(out, w.Position()));
    vf_assert(c == b, "factory bitmap round-trips to an equal object");
    VF_WITNESS();
  } VF_CATCH
}
// flipping the scan-line order reverses the rows and negates the height; twice restores the original
extern "C" void h_invert(void) {
  static uint8_t in[BMP_LEN + 4];
  unsigned n = build_bmp(in);
  g_may_throw = false;
  VF_TRY {
    BitmapFile b = BitmapFile::ReadIndexed(Stream::MemoryReader(in, n));
    BitmapFile o = b;
    b.InvertScanLines();
    vf_assert(b.imageHeader.height == -(BH) && b.imageHeader.width == (BW), "flip negates the height");
    vf_assert(b.pixels.size() == o.pixels.size(), "flip keeps the size");
    for (unsigned y = 0; y < ABSH; y++) vf_assert(memcmp(&b.pixels[y * PITCH], &o.pixels[(ABSH - 1 - y) * PITCH], PITCH) == 0, "flip exactly reverses the rows");
    b.InvertScanLines();
    vf_assert(b == o, "flipping twice restores the original");
    VF_WITNESS();
  } VF_CATCH
}

// header kernel: every header field free; a reader that checks the two bulk reads against the header it delivered
struct VecRaw { char* start; char* finish; char* eos; };
static void grow(VecRaw* v, uint64_t n, unsigned elem) {
  if (v->start != v->finish) { ::operator delete(v->start); }
  if (n > (uint64_t)0x7fffffffffffffff / elem) throw std::length_error("vector::_M_default_append");
  char* p = static_cast<char*>(::operator new(n * elem));
  v->start = p; v->finish = p + n * elem; v->eos = p + n * elem;
}
extern "C" void stub_default_append_u8(VecRaw* v, uint64_t n) { grow(v, n, 1); }
extern "C" void stub_default_append_color(VecRaw* v, uint64_t n) { grow(v, n, 4); }
struct BmpKernelReader : Stream::BidirectionalReader {
  int call = 0; uint64_t length = 0; uint8_t hdr[54];
  void ReadImplementation(void* buffer, std::size_t size) override {
    call++;
    if (call == 1) { vf_assert(size == 14, "harness: file header"); vf_havoc(hdr, 14); hdr[0] = 'B'; hdr[1] = 'M'; memcpy(buffer, hdr, 14); }
    else if (call == 2) { vf_assert(size == 40, "harness: image header"); vf_havoc(hdr + 14, 40); memcpy(buffer, hdr + 14, 40); }
    else if (call == 3) {
      uint32_t used = vf_ld32(hdr + 46); uint16_t bc = vf_ld16(hdr + 28);
      vf_assert(bc == 1 || bc == 4 || bc == 8, "non-indexed depth reached the palette read");
      vf_assert(used <= (1u << bc), "palette longer than the depth allows");
      vf_assert(size == 4ull * (used ? used : (1u << bc)), "palette read size");
    } else {
      int32_t w = (int32_t)vf_ld32(hdr + 18), h = (int32_t)vf_ld32(hdr + 22); uint16_t bc = vf_ld16(hdr + 28);
      vf_assert(w >= 0, "bitmap with a negative width was accepted");
      vf_assert(h != INT32_MIN, "height INT_MIN reached abs()");
      uint64_t rowbytes = ((uint64_t)w * bc + 7) / 8, pitch = (rowbytes + 3) & ~3ull, ah = h < 0 ? (uint64_t)-(int64_t)h : (uint64_t)h;
      vf_assert((uint64_t)size == pitch * ah, "pixel container is not |height| rows of the pitch");
      VF_WITNESS();
      vf_end();
    }
  }
  std::size_t ReadPartial(void*, std::size_t) noexcept override { return 0; }
  uint64_t Length() override { return length; }
  uint64_t Position() override { return 0; }
  void SeekForward(uint64_t) override {} void SeekBackward(uint64_t) override {} void Seek(uint64_t) override {}
};
extern "C" void h_header_kernel(void) {
  g_may_throw = true;
  VF_TRY {
    BmpKernelReader r; r.length = vf_nondet_u64();
    BitmapFile b = BitmapFile::ReadIndexed(r);
    vf_assert(0, "harness: unreachable");
  } VF_CATCH
}
