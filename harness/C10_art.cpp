// C10: PRT sprite metadata round-trips and always satisfies its cross-field rules.
#include "art_shape.h"
template class std::__cxx11::basic_string<char>;
using namespace OP2Utility;
static bool g_may_throw, g_refusal_expected;
extern "C" void vf_at_throw(void) { vf_assert(g_may_throw, "error on a well-formed PRT"); if (g_refusal_expected) VF_WITNESS(); }

static void check_rules(const ArtFile& a) {
  size_t frames = 0, layers = 0;
  for (size_t i = 0; i < a.imageMetas.size(); i++) {
    vf_assert(a.imageMetas[i].paletteIndex < a.palettes.size(), "every image's palette index names an existing palette");
    vf_assert(a.imageMetas[i].scanLineByteWidth == ((a.imageMetas[i].width + 3) & ~3u), "every scan-line width is the image width rounded up to four");
  }
  for (size_t i = 0; i < a.animations.size(); i++) { frames += a.animations[i].frames.size(); for (auto& f : a.animations[i].frames) { layers += f.layers.size(); vf_assert(f.layerMetadata.count == f.layers.size(), "per-frame layer count equals the actual layers"); } }
  vf_assert(a.animations.size() == NANIM && frames == (size_t)(NANIM) * (NFR) && layers == (size_t)(NANIM) * (NFR) * (NLAY), "header totals equal the actual contents");
}
extern "C" void h_art_roundtrip(void) {
  static uint8_t in[ART_LEN + 4];
  ArtShape s = build_art(in);
  g_may_throw = false;
  VF_TRY {
    Stream::MemoryReader r(in, s.len);
    ArtFile a = ArtFile::Read(r);
    vf_assert(r.Position() == s.len, "reader consumes the whole structure");
    vf_assert(a.palettes.size() == NPAL && a.imageMetas.size() == NIMG, "table sizes");
    check_rules(a);
    for (unsigned p = 0; p < NPAL; p++) for (unsigned i = 0; i < 256; i++) {
      const uint8_t* e = in + 8 + p * 1052 + 28 + 4 * i;
      vf_assert(a.palettes[p][i].red == e[2] && a.palettes[p][i].green == e[1] && a.palettes[p][i].blue == e[0] && a.palettes[p][i].alpha == e[3], "palettes are red-green-blue in memory and blue-green-red in the file");
    }
    const ArtFile before = a;
    static uint8_t out[ART_LEN + 16];
    Stream::MemoryWriter w(out, sizeof out);
    a.Write(w);
    vf_assert(arts_equal(a, before), "writing never alters the in-memory object");
    vf_assert(w.Position() == s.len, "written length");
    for (unsigned i = 0; i < ART_LEN; i++) vf_assert(out[i] == in[i], "writing reproduces the input bytes (palette headers canonical)");
    ArtFile b = ArtFile::Read(Stream::MemoryReader(out, w.Position()));
    vf_assert(arts_equal(a, b), "write then read yields an equal structure");
    static uint8_t out2[ART_LEN + 16];
    Stream::MemoryWriter w2(out2, sizeof out2);
    b.Write(w2);
    vf_assert(w2.Position() == w.Position() && memcmp(out, out2, ART_LEN) == 0, "writing is byte-stable");
    VF_WITNESS();
  } VF_CATCH
}
// bytes -> Read -> Write on a fixed buffer: the written bytes are the input bytes (no second parse, so a reader/writer mismatch shows at once)
extern "C" void h_art_write_once(void) {
  static uint8_t in[ART_LEN + 4];
  ArtShape s = build_art(in);
  g_may_throw = false;
  VF_TRY {
    Stream::MemoryReader r(in, s.len);
    ArtFile a = ArtFile::Read(r);
    vf_assert(r.Position() == s.len, "reader consumes the whole structure");
    check_rules(a);
    static uint8_t out[ART_LEN + 16];
    Stream::MemoryWriter w(out, sizeof out);
    a.Write(w);
    vf_assert(w.Position() == s.len, "written length");
    for (unsigned i = 0; i < ART_LEN; i++) vf_assert(out[i] == in[i], "writing reproduces the input bytes (palette headers canonical)");
    VF_WITNESS();
  } VF_CATCH
}
// inputs violating a cross-field rule are refused by the reader (BADRULE) and structures violating them by the writer
#ifndef BADRULE
#define BADRULE 0   /* 0: scan-line width, 1: palette index, 2: header frame total, 3: header layer total */
#endif
extern "C" void h_art_reject_read(void) {
  static uint8_t in[ART_LEN + 4];
  ArtShape s = build_art(in);
  uint32_t delta = vf_nondet_u32(); vf_assume(delta != 0);
  if (BADRULE == 0) vf_st32(in + s.offImages + 4, vf_ld32(in + s.offImages + 4) + delta);
  if (BADRULE == 1) { uint16_t v = (uint16_t)delta; vf_assume(v >= NPAL); vf_st16(in + s.offImages + 4 + 18, v); }
  if (BADRULE == 2) vf_st32(in + s.offAnimHeader + 4, (NANIM) * (NFR) + delta);
  if (BADRULE == 3) vf_st32(in + s.offAnimHeader + 8, (NANIM) * (NFR) * (NLAY) + delta);
  g_may_throw = true; g_refusal_expected = true;
  VF_TRY {
    ArtFile a = ArtFile::Read(Stream::MemoryReader(in, s.len));
    vf_assert(0, "a PRT violating a cross-field rule was accepted");
  } VF_CATCH
}
extern "C" void h_art_reject_write(void) {
  static uint8_t in[ART_LEN + 4];
  ArtShape s = build_art(in);
  g_may_throw = false; g_refusal_expected = false;
  VF_TRY {
    ArtFile a = ArtFile::Read(Stream::MemoryReader(in, s.len));
    uint32_t delta = vf_nondet_u32(); vf_assume(delta != 0);
    if (BADRULE == 0) a.imageMetas[0].scanLineByteWidth += delta;
    if (BADRULE == 1) { uint16_t v = (uint16_t)delta; vf_assume(v >= NPAL); a.imageMetas[0].paletteIndex = v; }
    if (BADRULE == 2) { uint8_t c = (uint8_t)(delta & 0x7F); vf_assume(c != NLAY); a.animations[0].frames[0].layerMetadata.count = c; }
    static uint8_t out[ART_LEN + 16];
    Stream::MemoryWriter w(out, sizeof out);
    g_may_throw = true; g_refusal_expected = true;
    a.Write(w);
    vf_assert(0, "a structure violating a cross-field rule was written");
  } VF_CATCH
}
extern "C" void h_dbg(void) {
  static uint8_t in[ART_LEN + 4];
  ArtShape s = build_art(in);
  g_may_throw = false;
  vf_assert(vf_ld32(in + 4) == NPAL, "dbg: palette count constant");
  vf_assert(memcmp(in, "CPAL", 4) == 0, "dbg: tag constant");
  vf_assert(vf_ld32(in + s.offAnimHeader) == NANIM, "dbg: anim count");
  Stream::MemoryReader r(in, s.len);
  SectionHeader h; r.Read(h);
  vf_assert(h.length == NPAL, "dbg: read length");
  VF_WITNESS();
}
