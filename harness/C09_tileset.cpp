// C09: tilesets load to the same picture from the custom and the standard format.
#include "vf.h"
#include "Sprite/TilesetLoader.h"
#include "Bitmap/BitmapFile.h"
#include "Stream/MemoryReader.h"
#include "Stream/MemoryWriter.h"
template class std::__cxx11::basic_string<char>;
using namespace OP2Utility;
#ifndef TH
#define TH 32           /* picture height in pixels (positive) */
#endif
#ifndef ORIENT
#define ORIENT 0        /* 0: bottom-up (positive height), 1: top-down (negative height) */
#endif
#define NPIX (32u * (TH))
#define CUSTOM_LEN (8 + 28 + 20 + 8 + 1024 + 8 + NPIX)
static bool g_may_throw, g_refusal_expected;
extern "C" void vf_at_throw(void) { vf_assert(g_may_throw, "error on a valid tileset"); if (g_refusal_expected) VF_WITNESS(); }

static BitmapFile make_picture(std::vector<Color>& pal, std::vector<uint8_t>& px) {
  pal.resize(256); vf_havoc(pal.data(), 1024);
  px.resize(NPIX); if (NPIX) vf_havoc(px.data(), NPIX);
  return BitmapFile::CreateIndexed(8, 32, ORIENT ? -(int32_t)(TH) : (int32_t)(TH), pal, px);
}
// row y (top first) of a bitmap regardless of its orientation
static const uint8_t* top_row(const BitmapFile& b, unsigned y) {
  unsigned h = b.AbsoluteHeight();
  return &b.pixels[(b.imageHeader.height < 0 ? y : h - 1 - y) * 32];
}
extern "C" void h_custom_roundtrip(void) {
  g_may_throw = false;
  VF_TRY {
    std::vector<Color> pal; std::vector<uint8_t> px;
    BitmapFile pic = make_picture(pal, px);
    static uint8_t out[CUSTOM_LEN + 8];
    Stream::MemoryWriter w(out, sizeof out);
    Tileset::WriteCustomTileset(w, pic);
    vf_assert(w.Position() == CUSTOM_LEN, "custom tileset length");
    // ---- description of the custom format
    vf_assert(memcmp(out, "PBMP", 4) == 0 && vf_ld32(out + 4) == CUSTOM_LEN - 28, "PBMP section tag and length");
    vf_assert(memcmp(out + 8, "head", 4) == 0 && vf_ld32(out + 12) == 0x14 && vf_ld32(out + 16) == 2 && vf_ld32(out + 20) == 32 && vf_ld32(out + 24) == (TH) && vf_ld32(out + 28) == 8 && vf_ld32(out + 32) == 8, "head section: tag count 2, width 32, height, depth 8, flags 8");
    vf_assert(memcmp(out + 36, "PPAL", 4) == 0 && vf_ld32(out + 40) == 1048 && memcmp(out + 44, "head", 4) == 0 && vf_ld32(out + 48) == 4 && vf_ld32(out + 52) == 1, "PPAL section header");
    vf_assert(memcmp(out + 56, "data", 4) == 0 && vf_ld32(out + 60) == 1024, "palette data section");
    for (unsigned i = 0; i < 256; i++) vf_assert(out[64 + 4 * i] == pal[i].blue && out[65 + 4 * i] == pal[i].green && out[66 + 4 * i] == pal[i].red && out[67 + 4 * i] == pal[i].alpha, "palette is stored blue-green-red");
    vf_assert(memcmp(out + 1088, "data", 4) == 0 && vf_ld32(out + 1092) == NPIX, "pixel data section");
    for (unsigned y = 0; y < (TH); y++) vf_assert(memcmp(out + 1096 + 32 * y, top_row(pic, y), 32) == 0, "pixels are stored top-down");
#ifdef FORMAT_ONLY
    VF_WITNESS(); return;
#endif
    // ---- loading it back through the format-detecting loader
    Stream::MemoryReader r(out, CUSTOM_LEN);
    vf_assert(Tileset::PeekIsCustomTileset(r) && r.Position() == 0, "detector recognises the custom signature without moving");
    BitmapFile back = Tileset::ReadTileset(r);
    vf_assert(back.imageHeader.bitCount == 8 && back.imageHeader.width == 32 && back.imageHeader.height == -(int32_t)(TH), "loaded picture is top-down, 8 bit, 32 wide");
    vf_assert(back.palette.size() == 256 && memcmp(back.palette.data(), pal.data(), 1024) == 0, "identical colours");
    vf_assert(back.pixels.size() == NPIX, "pixel count");
    for (unsigned y = 0; y < (TH); y++) vf_assert(memcmp(&back.pixels[32 * y], top_row(pic, y), 32) == 0, "same picture");
    VF_WITNESS();
  } VF_CATCH
}
extern "C" void h_standard_roundtrip(void) {
  g_may_throw = false;
  VF_TRY {
    std::vector<Color> pal; std::vector<uint8_t> px;
    BitmapFile pic = make_picture(pal, px);
    static uint8_t out[14 + 40 + 1024 + NPIX + 8];
    Stream::MemoryWriter w(out, sizeof out);
    pic.WriteIndexed(w);
    Stream::MemoryReader r(out, w.Position());
    vf_assert(!Tileset::PeekIsCustomTileset(r) && r.Position() == 0, "detector classifies a standard bitmap by its signature without moving");
    BitmapFile back = Tileset::ReadTileset(r);
    vf_assert(back.imageHeader.bitCount == 8 && back.imageHeader.width == 32 && back.AbsoluteHeight() == (TH), "geometry");
    vf_assert(back.palette.size() == 256 && memcmp(back.palette.data(), pal.data(), 1024) == 0, "identical colours");
    for (unsigned y = 0; y < (TH); y++) vf_assert(memcmp(top_row(back, y), top_row(pic, y), 32) == 0, "same picture from the standard format");
    VF_WITNESS();
  } VF_CATCH
}
// detector: purely the leading 4 bytes, position unchanged, for every signature and start position
extern "C" void h_peek(void) {
  g_may_throw = false;
  uint8_t buf[8]; vf_havoc(buf, 8);
  uint64_t pos = vf_nondet_u64(); vf_assume(pos <= 4);
  VF_TRY {
    Stream::MemoryReader r(buf, 8); r.Seek(pos);
    bool is = Tileset::PeekIsCustomTileset(r);
    vf_assert(is == (memcmp(buf + pos, "PBMP", 4) == 0), "classification is exactly the leading signature");
    vf_assert(r.Position() == pos, "the detector does not move the stream position");
    VF_WITNESS();
  } VF_CATCH
}
// pictures violating the tileset constraints are refused on save and on load
#ifndef VIOL
#define VIOL 0     /* 0: depth 4, 1: width 31, 2: height 33 (not a multiple of 32) */
#endif
extern "C" void h_refuse_save(void) {
  g_may_throw = true; g_refusal_expected = true;
  VF_TRY {
    BitmapFile b = BitmapFile::CreateIndexed(VIOL == 0 ? 4 : 8, VIOL == 1 ? 31 : 32, VIOL == 2 ? 33 : 32);
    static uint8_t out[4096];
    Stream::MemoryWriter w(out, sizeof out);
    Tileset::WriteCustomTileset(w, b);
    vf_assert(0, "a picture violating the tileset constraints was saved");
  } VF_CATCH
}
extern "C" void h_refuse_load(void) {
  g_may_throw = true; g_refusal_expected = true;
  static uint8_t in[CUSTOM_LEN];
  vf_havoc(in, sizeof in);
  memcpy(in, "PBMP", 4); vf_st32(in + 4, CUSTOM_LEN - 28);
  memcpy(in + 8, "head", 4); vf_st32(in + 12, 0x14); vf_st32(in + 16, 2); vf_st32(in + 20, VIOL == 1 ? 31 : 32); vf_st32(in + 24, VIOL == 2 ? 33 : (TH)); vf_st32(in + 28, VIOL == 0 ? 4 : 8); vf_st32(in + 32, 8);
  memcpy(in + 36, "PPAL", 4); vf_st32(in + 40, 1048); memcpy(in + 44, "head", 4); vf_st32(in + 48, 4); vf_st32(in + 52, 1);
  memcpy(in + 56, "data", 4); vf_st32(in + 60, 1024);
  VF_TRY {
    BitmapFile b = Tileset::ReadTileset(Stream::MemoryReader(in, sizeof in));
    vf_assert(0, "a stream violating the tileset constraints was loaded");
  } VF_CATCH
}
