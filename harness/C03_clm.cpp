// C03 (and CLM parts of C05/C18/C20): CLM pack, reopen, extract; independent RIFF generator and CLM decoder.
#include "vf.h"
#include "Archive/ClmFile.h"
#include "Stream/FileReader.h"
#include "Stream/SliceReader.h"
template class std::__cxx11::basic_string<char>;
using namespace OP2Utility;
#ifndef NW
#define NW 2
#endif
#ifndef WNAME0
#define WNAME0 "b.wav"
#endif
#ifndef WNAME1
#define WNAME1 "Track_8c.WAV"
#endif
#ifndef BASE0
#define BASE0 "b"
#endif
#ifndef BASE1
#define BASE1 "Track_8c"
#endif
#ifndef LAY0
#define LAY0 0
#endif
#ifndef LAY1
#define LAY1 0
#endif
#ifndef DL0
#define DL0 3
#endif
#ifndef DL1
#define DL1 6
#endif
#ifndef WORD0
#define WORD0 0
#endif
#ifndef WORD1
#define WORD1 1
#endif
#ifndef BAD
#define BAD 0
#endif
static const char* WNAMES[2] = { WNAME0, WNAME1 };
static const char* BASES[2] = { BASE0, BASE1 };
static const int LAYS[2] = { LAY0, LAY1 };
static const unsigned DLS[2] = { DL0, DL1 };
static const int WORDER[2] = { WORD0, WORD1 };
static bool g_may_throw, g_expect_refusal;
extern "C" void vf_at_throw(void) { vf_assert(g_may_throw, "error on a valid request"); if (g_expect_refusal) VF_WITNESS(); }

static int fold(unsigned char c) { return (c >= 'A' && c <= 'Z') ? c + 32 : c; }
static bool less_fold(const char* a, const char* b) { for (size_t i = 0;; i++) { if (!a[i] || !b[i]) return !a[i] && b[i]; int x = fold(a[i]), y = fold(b[i]); if (x != y) return x < y; } }
static size_t slen(const char* a) { size_t n = 0; while (a[n]) n++; return n; }

// Independent RIFF/WAVE generator.  layout: 0 minimal; 1 extra chunk before 'fmt '; 2 extra chunk between 'fmt ' and 'data';
// 3 extra chunk after 'data'; 4 = 16-byte fmt chunk (no cbSize word) + extra after data.  The extra chunk has 2 bytes of payload (even).
// fmt: 18 bytes shared by all files (symbolic); data: dl symbolic bytes.  Returns file length; *dataOff = offset of the audio bytes.
static unsigned gen_wav(uint8_t* f, int layout, const uint8_t* fmt, unsigned dl, unsigned* dataOff) {
  unsigned p = 12;
  auto chunk = [&](const char* tag, unsigned len) { memcpy(f + p, tag, 4); vf_st32(f + p + 4, len); p += 8; };
  auto extra = [&]() { chunk("LIST", 2); p += 2; };
  if (layout == 1) extra();
  unsigned fl = layout == 4 ? 16 : layout == 5 ? 40 : 18;      // 5: WAVE_FORMAT_EXTENSIBLE-sized format chunk (22 further bytes, symbolic)
  chunk("fmt ", fl); memcpy(f + p, fmt, fl < 18 ? fl : 18); p += fl;
  if (layout == 2) extra();
  chunk("data", dl); *dataOff = p; p += dl;
  if (layout == 3 || layout == 4) extra();
  memcpy(f, "RIFF", 4); vf_st32(f + 4, p - 8); memcpy(f + 8, "WAVE", 4);
  return p;
}
static uint8_t g_fmt[18]; static unsigned g_dataOff[2], g_wlen[2];
static void setup(bool sameFormat = true) {
  vf_havoc(g_fmt, 18);
  for (int i = 0; i < NW; i++) {
    uint8_t* f = vfs_data(i);
    vf_havoc(f, VFS_CAP);
    uint8_t fmt[18]; memcpy(fmt, g_fmt, 18);
    if (!sameFormat && i == 1) fmt[2] ^= 1;      // a different channel count
    g_wlen[i] = gen_wav(f, LAYS[i], fmt, DLS[i], &g_dataOff[i]);
    if (LAYS[i] == 4) { /* the two bytes after a 16-byte fmt chunk are the next chunk's tag: nothing to fix */ }
    vfs_set(i, WNAMES[i], 1, g_wlen[i]);
  }
  vfs_set(2, "out.clm", 0, 0); vfs_set(3, "x0.wav", 0, 0); vfs_set(4, "x1.wav", 0, 0);
}
static std::vector<std::string> listing() { std::vector<std::string> l; for (int k = 0; k < NW; k++) l.push_back(WNAMES[WORDER[k]]); return l; }
static void sorted(int* idx) { for (int i = 0; i < NW; i++) idx[i] = i; if (NW == 2 && less_fold(BASES[1], BASES[0])) { idx[0] = 1; idx[1] = 0; } }

// expected common format as stored: the 18 bytes with cbSize (last 2) zeroed; for the 16-byte fmt layout only 16 bytes are format
static void expect_fmt(uint8_t* out) { memcpy(out, g_fmt, 18); out[16] = 0; out[17] = 0; }

extern "C" void h_clm_roundtrip(void) {
  setup(); vfs_commit();
  g_may_throw = false; g_expect_refusal = false;
  VF_TRY {
    Archive::ClmFile::CreateArchive("out.clm", listing());
    vfs_sync();
    int idx[2]; sorted(idx);
    uint8_t efmt[18]; expect_fmt(efmt);
    // ---- independent description of the CLM layout over the raw bytes
    const uint8_t* c = vfs_data(2); uint64_t cl = vfs_get_size(2);
    vf_assert(cl >= 60, "clm: header present");
    vf_assert(memcmp(c, "OP2 Clump File Version 1.0\x1a\0\0\0\0\0", 32) == 0, "clm: version string");
    if (NW) vf_assert(memcmp(c + 32, efmt, 18) == 0, "clm: header carries the common wave format with cbSize 0");
    const uint8_t unk[6] = { 0, 0, 0, 0, 1, 0 };
    vf_assert(memcmp(c + 50, unk, 6) == 0, "clm: unknown field constant");
    vf_assert(vf_ld32(c + 56) == NW, "clm: packed file count");
    uint32_t off = 60 + 16 * NW;
    for (int i = 0; i < NW; i++) {
      int s = idx[i];
      const uint8_t* e = c + 60 + 16 * i;
      size_t bl = slen(BASES[s]);
      vf_assert(memcmp(e, BASES[s], bl) == 0, "clm: index name is the base name without extension, members in case-insensitive order");
      for (size_t k = bl; k < 8; k++) vf_assert(e[k] == 0, "clm: index name is NUL padded");
      vf_assert(vf_ld32(e + 8) == off, "clm: data offsets are contiguous after the index");
      vf_assert(vf_ld32(e + 12) == DLS[s], "clm: data length is the length of the file's audio data chunk");
      vf_assert(off + DLS[s] <= cl && memcmp(c + off, vfs_data(s) + g_dataOff[s], DLS[s]) == 0, "clm: member data is exactly the audio data chunk's bytes");
      off += DLS[s];
    }
    vf_assert(off == cl, "clm: the file ends with the last member's data");
    // ---- through the library
    Archive::ClmFile a("out.clm");
    vf_assert(a.GetCount() == NW, "one member per input");
    for (int i = 0; i < NW; i++) {
      int s = idx[i];
      vf_assert(a.GetName(i) == BASES[s], "member name");
      vf_assert(a.GetSize(i) == DLS[s], "member size is the audio data length");
      auto st = a.OpenStream(i);
      vf_assert(st->Length() == DLS[s], "stream length");
      uint8_t buf[16]; memset(buf, 0, 16); st->Read(buf, DLS[s]);
      vf_assert(memcmp(buf, vfs_data(s) + g_dataOff[s], DLS[s]) == 0, "stream delivers exactly the audio data chunk");
      a.ExtractFile(i, i == 0 ? "x0.wav" : "x1.wav");
    }
    vfs_sync();
    for (int i = 0; i < NW; i++) {
      int s = idx[i];
      const uint8_t* x = vfs_data(3 + i); uint64_t xl = vfs_get_size(3 + i);
      vf_assert(xl == 46 + DLS[s], "extracted WAV: canonical 46-byte header plus the data");
      vf_assert(memcmp(x, "RIFF", 4) == 0 && vf_ld32(x + 4) == 38 + DLS[s] && memcmp(x + 8, "WAVE", 4) == 0, "extracted WAV: RIFF header is self-consistent");
      vf_assert(memcmp(x + 12, "fmt ", 4) == 0 && vf_ld32(x + 16) == 18 && memcmp(x + 20, efmt, 18) == 0, "extracted WAV: carries the common format");
      vf_assert(memcmp(x + 38, "data", 4) == 0 && vf_ld32(x + 42) == DLS[s] && memcmp(x + 46, vfs_data(s) + g_dataOff[s], DLS[s]) == 0, "extracted WAV: data chunk holds the audio bytes");
    }
    VF_WITNESS();
  } VF_CATCH
}

// refusals: BAD 1 = first file is not RIFF, 2 = formats differ, 3 = duplicate names ignoring case / 9-character name (by the names given), 4 = not WAVE
extern "C" void h_clm_refuse(void) {
  setup(BAD != 2);
  if (BAD == 1) vfs_data(0)[0] = 'X';
  if (BAD == 4) vfs_data(0)[8] = 'w';
  vfs_commit();
  g_may_throw = true; g_expect_refusal = true;
  VF_TRY {
    Archive::ClmFile::CreateArchive("out.clm", listing());
    vf_assert(0, "creation succeeded although it must be refused");
  } VF_CATCH
}

// arbitrary bytes offered as a WAV (C05): every byte of a FLEN-byte file symbolic apart from the RIFF/WAVE magic and a consistent
// size word (otherwise the intake stops at once): error or archive, never a hang or memory fault
#ifndef FLEN
#define FLEN 40
#endif
extern "C" void h_wav_intake(void) {
  uint8_t* f = vfs_data(0);
  vf_havoc(f, VFS_CAP);
  memcpy(f, "RIFF", 4); vf_st32(f + 4, FLEN - 8); memcpy(f + 8, "WAVE", 4);
#ifdef FIRSTFMT
  memcpy(f + 12, "fmt ", 4);      // let the first chunk be the format chunk so that the data-chunk search runs over symbolic chunk headers
#endif
  vfs_set(0, "a.wav", 1, FLEN);
  vfs_set(2, "out.clm", 0, 0);
  vfs_commit();
  g_may_throw = true; g_expect_refusal = false;
  VF_TRY {
    std::vector<std::string> l; l.push_back("a.wav");
    Archive::ClmFile::CreateArchive("out.clm", l);
    VF_WITNESS();
  } VF_CATCH
}

// chunk-search kernel (C05): a reader of symbolic length whose chunk headers are arbitrary; reads beyond the end fail like a real
// file.  The search must end within length/8 + 1 header reads (a 32-bit cursor that wraps never ends).
struct ChunkReader : Stream::BidirectionalReader {
  uint64_t length = 0, pos = 0, headerReads = 0;
  void ReadImplementation(void* buffer, std::size_t size) override {
    if (size > length - pos) throw std::runtime_error("chunk: read beyond end");
    vf_assert(size == 8, "harness: only chunk headers are read");
    headerReads++;
    vf_assert(headerReads <= length / 8 + 1, "chunk search does not terminate (more header reads than the file has room for)");
    vf_havoc(buffer, 8);
    pos += size;
  }
  std::size_t ReadPartial(void*, std::size_t) noexcept override { return 0; }
  uint64_t Length() override { return length; }
  uint64_t Position() override { return pos; }
  void SeekForward(uint64_t o) override { if (o > length - pos) throw std::runtime_error("chunk: seek beyond end"); pos += o; }
  void SeekBackward(uint64_t o) override { if (o > pos) throw std::runtime_error("chunk: seek before start"); pos -= o; }
  void Seek(uint64_t p) override { pos = p; }     // like a file: seeking beyond the end succeeds, the next read fails
};
extern "C" void h_find_chunk(void) {
  g_may_throw = true; g_expect_refusal = false;
  ChunkReader r; r.length = vf_nondet_u64(); vf_assume(r.length <= 64);
  VF_TRY {
    uint32_t len = Archive::ClmFile::FindChunk(Archive::tagDATA, r);
    vf_assert(r.Position() <= r.Length(), "found chunk header lies inside the file");
    VF_WITNESS();
  } VF_CATCH
}
