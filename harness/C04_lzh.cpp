// C04: LZH decompression equals the reference decoder, however it is drained (compositional, see lib/props/C04.py).
#include "vf.h"
#include "Archive/HuffLZ.h"
template class std::__cxx11::basic_string<char>;
using namespace OP2Utility::Archive;
static bool g_may_throw;
extern "C" void vf_at_throw(void) { vf_assert(g_may_throw, "decoder threw"); }

// ---------- independent description of the format's bit order and position code
static unsigned ref_bit(const uint8_t* b, uint64_t nbits, uint64_t i) { return i < nbits ? (b[i >> 3] >> (7 - (i & 7))) & 1 : 0; }   // MSB first, zeros past the end
static unsigned ref_bits8(const uint8_t* b, uint64_t nbits, uint64_t i) { unsigned v = 0; for (int k = 0; k < 8; k++) v = (v << 1) | ref_bit(b, nbits, i + k); return v; }
// position prefix table of the classic LZHUF scheme, generated from its run lengths: (upper 6 bits, total prefix length)
static void ref_pos_table(unsigned first, unsigned* upper, unsigned* len) {
  static const unsigned runs[6][3] = { { 32, 1, 3 }, { 16, 3, 4 }, { 8, 8, 5 }, { 4, 12, 6 }, { 2, 24, 7 }, { 1, 16, 8 } };   // run length, number of codes, prefix bits
  unsigned i = 0, code = 0;
  for (int g = 0; g < 6; g++) for (unsigned c = 0; c < runs[g][1]; c++, code++) { if (first >= i && first < i + runs[g][0]) { *upper = code; *len = runs[g][2]; } i += runs[g][0]; }
}
// decodes one position starting at bit i: returns the distance-1 (0..4095) and the number of bits consumed
static unsigned ref_position(const uint8_t* b, uint64_t nbits, uint64_t i, unsigned* used) {
  unsigned first = ref_bits8(b, nbits, i), upper = 0, len = 0;
  ref_pos_table(first, &upper, &len);
  unsigned extra = len - 2, v = first;
  for (unsigned k = 0; k < extra; k++) v = (v << 1) | ref_bit(b, nbits, i + 8 + k);
  *used = 8 + extra;
  return (upper << 6) | (v & 0x3F);
}

// ---------- K: offset modifiers for all 256 prefixes
extern "C" void h_offset_modifiers(void) {
  g_may_throw = false;
  unsigned first = vf_nondet_u8();
  auto m = HuffLZ::GetOffsetModifiers(first);
  unsigned upper = 0, len = 0; ref_pos_table(first, &upper, &len);
  vf_assert(m.offsetUpperBits == upper && m.extraBitCount == len - 2, "position prefix table equals the format's");
  vf_assert(m.offsetUpperBits < 64 && m.extraBitCount >= 1 && m.extraBitCount <= 6, "ranges: upper part < 64, 9 to 14 bits per position");
  VF_WITNESS();
}

// ---------- I: bit reader, one operation from an arbitrary valid state over a buffer of up to 4 symbolic bytes
extern "C" void h_bitreader_step(void) {
  g_may_throw = false;
  uint8_t buf[4]; vf_havoc(buf, 4);
  uint64_t size = vf_nondet_u64(); vf_assume(size <= 4);
  uint64_t idx = vf_nondet_u64(); vf_assume(idx <= size * 8);
  BitStreamReader r(buf, size);
  r.m_ReadBitIndex = idx;
  // representation invariant: inside a byte the one-byte shift buffer holds the unread bits of that byte, left aligned
  if (idx & 7) r.m_ReadBuff = (uint8_t)(buf[idx >> 3] << (idx & 7)); else r.m_ReadBuff = vf_nondet_u8();
  uint8_t op = vf_nondet_u8() & 1;
  if (op == 0) {
    bool bit = r.ReadNextBit();
    vf_assert(bit == (bool)ref_bit(buf, size * 8, idx), "ReadNextBit is the next bit, most significant first, zero past the end");
    vf_assert(r.GetBitReadPos() == (idx < size * 8 ? idx + 1 : idx), "bit position advances by one inside the stream");
  } else {
    int v = r.ReadNext8Bits();
    vf_assert(v == (int)ref_bits8(buf, size * 8, idx), "ReadNext8Bits is the next 8 bits, zero padded past the end");
    vf_assert(r.GetBitReadPos() == (idx < size * 8 ? idx + 8 : idx), "bit position advances by eight inside the stream");
  }
  uint64_t n = r.GetBitReadPos();
  vf_assert(r.EndOfStream() == (n >= size * 8), "end of stream exactly when every bit has been read");
  if (n < size * 8 && (n & 7)) vf_assert(r.m_ReadBuff == (uint8_t)(buf[n >> 3] << (n & 7)), "invariant of the shift buffer is preserved");
  VF_WITNESS();
}

// ---------- stubs (IR-level redirects): the Huffman layer is replaced by its contract (C15): a code below 314 per call, consuming 1..12 bits
extern "C" uint32_t stub_GetNextCode(HuffLZ* self) {
  uint8_t nb = vf_nondet_u8(); vf_assume(nb >= 1 && nb <= 12);
  for (uint8_t k = 0; k < 12; k++) { if (k >= nb) break; self->m_BitStreamReader.ReadNextBit(); }
  uint16_t code = vf_nondet_u16(); vf_assume(code < 314);
  return code;
}
extern "C" void stub_UpdateCodeCount(AdaptiveHuffmanTree*, uint16_t) {}
extern "C" void stub_TreeCtor(AdaptiveHuffmanTree* t, uint16_t) { memset((void*)t, 0, sizeof(AdaptiveHuffmanTree)); }     // an empty tree (never consulted when the calls above are stubbed); its destructor must find valid empty vectors

// ---------- reference LZ decoder driven by the same code choices (recorded by a second stub) and the same bit stream
static uint16_t g_codes[64]; static uint8_t g_nbits[64]; static unsigned g_ncodes;
extern "C" uint32_t stub_GetNextCode_rec(HuffLZ* self) {
  uint8_t nb = vf_nondet_u8(); vf_assume(nb >= 1 && nb <= 12);
  for (uint8_t k = 0; k < 12; k++) { if (k >= nb) break; self->m_BitStreamReader.ReadNextBit(); }
  uint16_t code = vf_nondet_u16(); vf_assume(code < 314);
#ifdef ONLY_MATCHES
  vf_assume(code >= 256);
#endif
  vf_assert(g_ncodes < 64, "harness: code log");
  g_codes[g_ncodes] = code; g_nbits[g_ncodes] = nb; g_ncodes++;
  return code;
}
// ---------- I: DecompressCode from an arbitrary window and write index
extern "C" void h_decompress_code(void) {
  g_may_throw = false; g_ncodes = 0;
  uint8_t in[3]; vf_havoc(in, 3);
  HuffLZ d(BitStreamReader(in, 3));
#ifdef PATTERN
  for (unsigned i = 0; i < 4096; i++) d.m_DecompressBuffer[i] = (char)(i * 7 + (i >> 8) + 3);   // concrete, position-revealing window contents
#else
  vf_havoc(d.m_DecompressBuffer, 4096);
#endif
#ifdef WIDX
  uint64_t w = WIDX;                       // write index concrete per query (the window contents and the distance stay symbolic)
#else
  uint64_t w = vf_nondet_u64(); vf_assume(w < 4096);
#endif
  d.m_BuffWriteIndex = w;
  static uint8_t sim[4096]; memcpy(sim, d.m_DecompressBuffer, 4096);
  bool eos = d.DecompressCode();
  vf_assert(g_ncodes == 1, "exactly one code is taken from the Huffman layer");
  unsigned code = g_codes[0], nb = g_nbits[0];
  uint64_t n = code < 256 ? 1 : code - 253;
  vf_assert(d.m_BuffWriteIndex == ((w + n) & 4095), "a literal writes 1 byte, a match code-253 bytes (3..60), at the write index modulo 4096");
  if (code < 256) sim[w] = (uint8_t)code;
  else {
    unsigned used = 0; unsigned dist = ref_position(in, 24, nb, &used);
    for (uint64_t k = 0; k < 60; k++) { if (k >= n) break; sim[(w + k) & 4095] = sim[(w + k - dist - 1) & 4095]; }
  }
  vf_assert(memcmp(sim, d.m_DecompressBuffer, 4096) == 0, "the window equals the reference decoder's window after the same code (copies come from distance+1 behind, nothing else changes)");
  vf_assert(eos == d.m_BitStreamReader.EndOfStream(), "end of stream is reported when the bits are used up");
  VF_WITNESS();
}

#ifndef INLEN
#define INLEN 2
#endif
#ifndef OUTCAP
#define OUTCAP 200
#endif
// whole decoder from the fresh state: output through GetData (DRAIN 0: one call, 1: two calls of symbolic sizes) or GetInternalBuffer (2)
#ifndef DRAIN
#define DRAIN 0
#endif
extern "C" void h_decode(void) {
  g_may_throw = false; g_ncodes = 0;
  uint8_t in[INLEN]; vf_havoc(in, INLEN);
  HuffLZ d(BitStreamReader(in, INLEN));
  static uint8_t out[OUTCAP + 8]; memset(out, 0xEE, sizeof out);
  uint64_t got = 0;
#if DRAIN == 0
  got = d.GetData((char*)out, OUTCAP);
#elif DRAIN == 1
  uint64_t n1 = vf_nondet_u64(); vf_assume(n1 <= OUTCAP);
  got = d.GetData((char*)out, n1);
  vf_assert(got <= n1, "GetData never delivers more than requested");
  got += d.GetData((char*)out + got, OUTCAP - got);
#else
  for (int round = 0; round < 3; round++) { size_t n = 0; const char* p = d.GetInternalBuffer(&n); vf_assert(got + n <= OUTCAP, "harness: output capacity"); memcpy(out + got, p, n); got += n; if (!n) break; }
#endif
  // reference: 4 KiB window filled with spaces, literals and matches (distance-1 from the position code), codes and bit counts as chosen
  static uint8_t win[4096]; memset(win, ' ', 4096);
  static uint8_t ref[OUTCAP + 64]; uint64_t rn = 0, w = 0, bit = 0;
  for (unsigned c = 0; c < 64; c++) {
    if (c >= g_ncodes) break;
    bit += g_nbits[c]; if (bit > INLEN * 8) bit = INLEN * 8;
    if (g_codes[c] < 256) { win[w] = (uint8_t)g_codes[c]; ref[rn++] = win[w]; w = (w + 1) & 4095; }
    else {
      unsigned used = 0; unsigned dist = ref_position(in, INLEN * 8, bit, &used);
      bit += used; if (bit > INLEN * 8) bit = INLEN * 8;      // past the end every further bit reads as zero
      unsigned len = g_codes[c] - 253;
      for (unsigned k = 0; k < 60; k++) { if (k >= len) break; uint8_t b = win[(w - dist - 1) & 4095]; win[w] = b; ref[rn++] = b; w = (w + 1) & 4095; }
    }
  }
  vf_assert(got == rn, "the decoder delivers exactly as many bytes as the reference decoder produces");
  for (uint64_t i = 0; i < OUTCAP; i++) { if (i >= rn) break; vf_assert(out[i] == ref[i], "delivered bytes equal the reference decoder's, in order"); }
  for (int i = 0; i < 8; i++) vf_assert(out[OUTCAP + i] == 0xEE, "nothing is written past the caller's buffer");
  VF_WITNESS();
}

// ---------- K: GetRepeatOffset at every bit alignment (only the Huffman tree constructor is stubbed; the window is not touched)
extern "C" void h_repeat_offset(void) {
  g_may_throw = false;
  uint8_t in[3]; vf_havoc(in, 3);
  HuffLZ d(BitStreamReader(in, 3));
  uint8_t k = vf_nondet_u8(); vf_assume(k < 8);
  for (uint8_t i = 0; i < 8; i++) { if (i >= k) break; d.m_BitStreamReader.ReadNextBit(); }
  unsigned used = 0; unsigned want = ref_position(in, 24, k, &used);
  unsigned got = d.GetRepeatOffset();
  vf_assert(got == want, "decoded distance equals the format's position code at every bit alignment");
  vf_assert(got < 4096, "distances stay inside the 4 KiB window");
  uint64_t pos = d.m_BitStreamReader.GetBitReadPos();
  if ((uint64_t)k + used <= 24) vf_assert(pos == (uint64_t)k + used, "a position consumes 9 to 14 bits");
  VF_WITNESS();
}
// ---------- I: CopyAvailableData for small requests from arbitrary ring indices over a position-revealing window
extern "C" void h_copy_available(void) {
  g_may_throw = false;
  uint8_t in[1] = { 0 };
  HuffLZ d(BitStreamReader(in, 1));
  for (unsigned i = 0; i < 4096; i++) d.m_DecompressBuffer[i] = (char)(i * 7 + (i >> 8) + 3);
  uint64_t r = vf_nondet_u64(), w = vf_nondet_u64(); vf_assume(r < 4096 && w < 4096);
  d.m_BuffReadIndex = r; d.m_BuffWriteIndex = w;
  uint64_t n = vf_nondet_u64(); vf_assume(n <= 8);
  uint8_t out[12]; memset(out, 0xEE, 12);
  uint64_t avail = (w - r) & 4095;
  uint64_t got = d.CopyAvailableData((char*)out, n);
  uint64_t want = n < avail ? n : avail;
  vf_assert(got == want, "delivers min(requested, available) bytes");
  for (uint64_t i = 0; i < 12; i++) { uint64_t idx = (r + i) & 4095; uint8_t b = (uint8_t)(idx * 7 + (idx >> 8) + 3); vf_assert(out[i] == (i < want ? b : 0xEE), "bytes come from the ring in order starting at the read index; nothing is written past the request"); }
  vf_assert(d.m_BuffReadIndex == ((r + want) & 4095) || (d.m_BuffReadIndex == r + want && r + want <= 4096), "read index advances by the bytes delivered");
  vf_assert(d.m_BuffWriteIndex == w, "write index untouched");
  VF_WITNESS();
}

// ---------- R: ring-index arithmetic of the LZ window layer with the window itself never touched.
// DecompressCode is replaced (IR-level redirect in the solver, symbol override in the native replay build) by its index contract:
// it appends 1..60 bytes at the write index (a literal or a match of 3..60 bytes) and reports end of stream at will.  One step from an
// ARBITRARY pair of ring indices, so every state a history can reach is covered.
#if defined(VF_NATIVE) && defined(RING)
extern "C" bool stub_DecompressCode_ring(HuffLZ* self) __asm__("_ZN10OP2Utility7Archive6HuffLZ14DecompressCodeEv");
#endif
static unsigned g_ring_calls; static uint64_t g_ring_last_k; static bool g_ring_last_eos;
extern "C" bool stub_DecompressCode_ring(HuffLZ* self) {
  uint64_t pending = (self->m_BuffWriteIndex - self->m_BuffReadIndex) & 0xFFF;
  vf_assert(self->m_BuffWriteIndex < 4096 && self->m_BuffReadIndex < 4096, "ring indices stay below 4096");
  vf_assert(pending + 60 <= 4095, "a code is decoded only while the longest run (60 bytes) still fits: the write index can never catch up with the read index (4096 pending bytes would read as an empty ring)");
  uint8_t k = vf_nondet_u8(); vf_assume(k >= 1 && k <= 60);
  self->m_BuffWriteIndex = (self->m_BuffWriteIndex + k) & 0xFFF;
  bool eos = vf_nondet_u8() & 1;
  g_ring_last_k = k; g_ring_last_eos = eos;
  if (++g_ring_calls == 2) { VF_WITNESS(); vf_end(); }      // the second call starts from a state the arbitrary pre-state already covers
  return eos;
}
extern "C" void h_fill_step(void) {
  g_may_throw = false; g_ring_calls = 0;
  uint8_t in[1] = { 0 };
  HuffLZ d(BitStreamReader(in, 1));
  uint64_t r = vf_nondet_u64(), w = vf_nondet_u64(); vf_assume(r < 4096 && w < 4096);
  bool eos0 = vf_nondet_u8() & 1;
  d.m_BuffReadIndex = r; d.m_BuffWriteIndex = w; d.m_EOS = eos0;
  uint64_t pending0 = (w - r) & 0xFFF;
  d.FillDecompressBuffer();
  vf_assert(d.m_BuffReadIndex == r, "filling never moves the read index");
  if (eos0) vf_assert(g_ring_calls == 0 && d.m_BuffWriteIndex == w, "nothing is decoded after the end of the stream");
  if (!eos0 && pending0 == 0) vf_assert(g_ring_calls >= 1, "an empty ring before the end of the stream is refilled (an empty internal buffer means end of stream to the callers)");
  if (g_ring_calls == 0) vf_assert(d.m_BuffWriteIndex == w && d.m_EOS == eos0, "state unchanged when no code is decoded");
}
// GetInternalBuffer at the end of the stream (filling returns at once) from arbitrary ring indices: pointer, length and read index
extern "C" void h_internal_buffer_step(void) {
  g_may_throw = false;
  uint8_t in[1] = { 0 };
  HuffLZ d(BitStreamReader(in, 1));
  uint64_t r = vf_nondet_u64(), w = vf_nondet_u64(); vf_assume(r < 4096 && w < 4096);
  d.m_BuffReadIndex = r; d.m_BuffWriteIndex = w; d.m_EOS = true;
  size_t n = 12345;
  const char* p = d.GetInternalBuffer(&n);
  vf_assert(p == &d.m_DecompressBuffer[r], "the internal buffer starts at the read index");
  vf_assert(n == (w < r ? 4096 - r : w - r), "its length is the pending data up to the end of the window (the rest follows on the next call)");
  vf_assert(r + n <= 4096, "the returned range lies inside the window");
  vf_assert((n == 0) == (r == w), "length 0 (the end-of-stream signal) exactly when nothing is pending");
  vf_assert(d.m_BuffReadIndex == ((r + n) & 0xFFF) && d.m_BuffWriteIndex == w, "the read index advances by the bytes handed out, modulo 4096; the write index is untouched");
  VF_WITNESS();
}

// ---------- R2: the copying drain.  CopyAvailableData from ARBITRARY ring indices and ANY request size.  In the solver its (variable-length)
// memcpy calls are replaced by a recording hook (ir2c --memcpy-hook), so the window contents never enter the formula: the recorded
// (destination, source, length) triples must tile the caller's buffer in order with the ring's pending bytes.  The native replay runs the
// real memcpy over a position-revealing window and compares the bytes delivered.
struct CopyRec { const char* d; const char* s; uint64_t n; };
static CopyRec g_cp[4]; static unsigned g_ncp;
extern "C" void stub_memcpy_ring(char* d, char* s, uint64_t n) { vf_assert(g_ncp < 4, "at most one copy before and one after the wrap"); g_cp[g_ncp].d = d; g_cp[g_ncp].s = s; g_cp[g_ncp].n = n; g_ncp++; }
static inline uint8_t ring_pattern(uint64_t idx) { return (uint8_t)(idx * 7 + (idx >> 8) + 3); }
extern "C" void h_copy_ring(void) {
  g_may_throw = false; g_ncp = 0;
  uint8_t in[1] = { 0 };
  HuffLZ d(BitStreamReader(in, 1));
  uint64_t r = vf_nondet_u64(), w = vf_nondet_u64(); vf_assume(r < 4096 && w < 4096);
  uint64_t n = vf_nondet_u64();                       // any request size
  d.m_BuffReadIndex = r; d.m_BuffWriteIndex = w;
  static char out[4096 + 16];
#ifdef VF_NATIVE
  for (unsigned i = 0; i < 4096; i++) d.m_DecompressBuffer[i] = (char)ring_pattern(i);
  memset(out, 0xEE, sizeof out);
#endif
  const uint64_t pending = (w - r) & 4095, want = n < pending ? n : pending;
  uint64_t got = d.CopyAvailableData(out, n);
  vf_assert(got == want, "delivers min(requested, pending) bytes");
  vf_assert(d.m_BuffReadIndex == ((r + want) & 4095) && d.m_BuffWriteIndex == w, "the read index advances by the bytes delivered modulo 4096; the write index is untouched");
#ifdef VF_NATIVE
  for (uint64_t i = 0; i < sizeof out; i++) vf_assert((uint8_t)out[i] == (i < want ? ring_pattern((r + i) & 4095) : 0xEE), "bytes come from the ring in order starting at the read index; nothing is written past them");
#else
  uint64_t pos = r, o = 0;
  for (unsigned k = 0; k < 4; k++) {
    if (k >= g_ncp) break;
    if (g_cp[k].n == 0) continue;
    vf_assert(g_cp[k].d == out + o, "copies fill the caller's buffer contiguously from its start");
    vf_assert(g_cp[k].s == &d.m_DecompressBuffer[0] + (pos & 4095), "each copy starts where the previous one ended in the ring, beginning at the read index");
    vf_assert((pos & 4095) + g_cp[k].n <= 4096, "no copy reads past the end of the window");
    pos += g_cp[k].n; o += g_cp[k].n;
  }
  vf_assert(o == want, "together the copies deliver exactly min(requested, pending) bytes - nothing is written past the request");
#endif
  VF_WITNESS();
}

// ---------- R3: GetData over the same two contracts: from ARBITRARY ring indices, ANY request size, with at most one code decoded (the
// second DecompressCode call ends the path: its pre-state is again an arbitrary ring state).  Copies are recorded as in R2.
extern "C" void h_getdata_ring(void) {
  g_may_throw = false; g_ncp = 0; g_ring_calls = 0; g_ring_last_k = 0; g_ring_last_eos = false;
  uint8_t in[1] = { 0 };
  HuffLZ d(BitStreamReader(in, 1));
  uint64_t r = vf_nondet_u64(), w = vf_nondet_u64(); vf_assume(r < 4096 && w < 4096);
  bool eos0 = vf_nondet_u8() & 1;
  uint64_t n = vf_nondet_u64();
  d.m_BuffReadIndex = r; d.m_BuffWriteIndex = w; d.m_EOS = eos0;
  static char out[4096 + 128];
  const uint64_t pending0 = (w - r) & 4095;
  uint64_t got = d.GetData(out, n);
  // complete paths decode at most one code (k bytes appended)
  const uint64_t avail = pending0 + (g_ring_calls ? g_ring_last_k : 0);
  // (avail may exceed the ring's capacity: the drain and the refill interleave)
  vf_assert(got == (n < avail ? n : avail), "GetData delivers min(requested, everything available up to the end of the stream)");
  if (got < n) vf_assert(d.m_EOS, "a short delivery happens only at the end of the stream");
  vf_assert(d.m_BuffReadIndex == ((r + got) & 4095), "the read index advances by the bytes delivered");
#ifndef VF_NATIVE
  uint64_t pos = r, o = 0;
  for (unsigned k = 0; k < 4; k++) {
    if (k >= g_ncp) break;
    if (g_cp[k].n == 0) continue;
    vf_assert(g_cp[k].d == out + o, "copies fill the caller's buffer contiguously from its start");
    vf_assert(g_cp[k].s == &d.m_DecompressBuffer[0] + (pos & 4095) && (pos & 4095) + g_cp[k].n <= 4096, "each copy continues in ring order from the read index, inside the window");
    pos += g_cp[k].n; o += g_cp[k].n;
  }
  vf_assert(o == got, "together the copies deliver exactly the returned count - nothing is written past the request");
#endif
  VF_WITNESS();
}
