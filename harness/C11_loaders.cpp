// C11: bitmap, tileset and PRT loaders are safe on arbitrary bytes; the objects they return are safe to use.
#include "bmp_shape.h"
#include "art_shape.h"
#include "Sprite/TilesetLoader.h"
#include "Sprite/SpriteLoader.h"
#include <memory>
template class std::__cxx11::basic_string<char>;
using namespace OP2Utility;
#ifndef FIELD
#define FIELD -1
#endif
#ifndef VAL
#define VAL 0
#endif
#ifndef TRUNC
#define TRUNC -1
#endif
static bool g_may_throw;
extern "C" void vf_at_throw(void) { vf_assert(g_may_throw, "unexpected error"); }
static uint8_t g_out[4096];

// ---- indexed bitmap: one header field overridden / truncated; then every public operation on an accepted object
extern "C" void h_bmp_hostile(void) {
  static uint8_t in[BMP_LEN + 8];
  unsigned n = build_bmp(in);
  const unsigned offs[] = { 0, 2, 10, 14, 18, 22, 26, 28, 30, 34, 46, 50 };
  if (FIELD >= 0) { if (FIELD == 0 || FIELD == 6 || FIELD == 7) vf_st16(in + offs[FIELD], (uint16_t)(VAL)); else vf_st32(in + offs[FIELD], (uint32_t)(VAL)); }
  uint64_t len = TRUNC >= 0 ? (uint64_t)TRUNC : n;
  g_may_throw = true;
  try {
    BitmapFile b = BitmapFile::ReadIndexed(Stream::MemoryReader(in, len));
    if (FIELD < 0 && TRUNC >= 0) vf_assert(len >= n, "a proper prefix of a valid bitmap was accepted");
    vf_assert(b.imageHeader.width >= 0, "accepted bitmap has a negative width");
    try { b.Validate(); } catch (const std::exception&) {}
    try { Stream::MemoryWriter w(g_out, sizeof g_out); b.WriteIndexed(w); } catch (const std::exception&) {}
    try { b.SwapRedAndBlue(); } catch (const std::exception&) {}
    try { b.InvertScanLines(); b.Validate(); } catch (const std::exception&) {}
    try { (void)b.AbsoluteHeight(); (void)b.GetScanLineOrientation(); } catch (const std::exception&) {}
  } catch (const std::exception&) {}
  VF_WITNESS();
}

// ---- custom tileset: header fields overridden / truncated
#define TS_LEN (8 + 28 + 20 + 8 + 1024 + 8 + 1024)
extern "C" void h_tileset_hostile(void) {
  static uint8_t in[TS_LEN + 8];
  vf_havoc(in, TS_LEN);
  memcpy(in, "PBMP", 4); vf_st32(in + 4, TS_LEN - 28);
  memcpy(in + 8, "head", 4); vf_st32(in + 12, 0x14); vf_st32(in + 16, 2); vf_st32(in + 20, 32); vf_st32(in + 24, 32); vf_st32(in + 28, 8); vf_st32(in + 32, 8);
  memcpy(in + 36, "PPAL", 4); vf_st32(in + 40, 1048); memcpy(in + 44, "head", 4); vf_st32(in + 48, 4); vf_st32(in + 52, 1);
  memcpy(in + 56, "data", 4); vf_st32(in + 60, 1024);
  memcpy(in + 1088, "data", 4); vf_st32(in + 1092, 1024);
  const unsigned offs[] = { 4, 12, 16, 20, 24, 28, 32, 40, 48, 52, 60, 1092, 0, 1088 };
  if (FIELD >= 0) vf_st32(in + offs[FIELD], (uint32_t)(VAL));
  uint64_t len = TRUNC >= 0 ? (uint64_t)TRUNC : TS_LEN;
  g_may_throw = true;
  try {
    BitmapFile b = Tileset::ReadTileset(Stream::MemoryReader(in, len));
    if (FIELD < 0 && TRUNC >= 0) vf_assert(len >= TS_LEN, "a proper prefix of a valid tileset was accepted");
    try { Tileset::ValidateTileset(b); b.Validate(); } catch (const std::exception&) {}
    try { Stream::MemoryWriter w(g_out, sizeof g_out); Tileset::WriteCustomTileset(w, b); } catch (const std::exception&) {}
    try { Stream::MemoryWriter w(g_out, sizeof g_out); b.WriteIndexed(w); } catch (const std::exception&) {}
    try { b.InvertScanLines(); } catch (const std::exception&) {}
  } catch (const std::exception&) {}
  VF_WITNESS();
}

// ---- PRT: one field overridden / truncated; then Write, image-index verification and sprite extraction for every index 0..count+1
extern "C" void h_art_hostile(void) {
  static uint8_t in[ART_LEN + 8];
  ArtShape s = build_art(in);
  const unsigned img = s.offImages + 4, an = s.offFirstAnim;
  const unsigned offs[] = { 4, 12, 20, 24, s.offImages, img, img + 4, img + 8, img + 12, img + 16, s.offAnimHeader, s.offAnimHeader + 4, s.offAnimHeader + 8, an + 32, an + 36, an + 36 + FRAME_LEN, 8 + 4, 8 + 16 };
  if (FIELD >= 0) { if (FIELD == 9) vf_st32(in + offs[FIELD], (uint32_t)(VAL)); else if (FIELD == 14) in[offs[FIELD]] = (uint8_t)(VAL); else vf_st32(in + offs[FIELD], (uint32_t)(VAL)); }
  uint64_t len = TRUNC >= 0 ? (uint64_t)TRUNC : s.len;
  // the pixel file the sprites are cut from: a small file of symbolic bytes
  uint8_t* px = vfs_data(0); vf_havoc(px, VFS_CAP); vfs_set(0, "op2_art.BMP", 1, VFS_CAP); vfs_set(1, "x0.bmp", 0, 0);
  vfs_commit();
  g_may_throw = true;
  try {
    auto art = std::make_shared<ArtFile>(ArtFile::Read(Stream::MemoryReader(in, len)));
    if (FIELD < 0 && TRUNC >= 0) vf_assert(len >= s.len, "a proper prefix of a valid PRT was accepted");
    try { Stream::MemoryWriter w(g_out, sizeof g_out); art->Write(w); } catch (const std::exception&) {}
    size_t count = art->imageMetas.size();
    for (size_t i = 0; i < NIMG + 2; i++) {
      bool ok = true;
      try { art->VerifyImageIndexInBounds(i); } catch (const std::exception&) { ok = false; }
      vf_assert(ok == (i < count), "image index verification accepts exactly the indices below the image count");
    }
#ifdef EXTRACT
    SpriteLoader loader("op2_art.BMP", art);
    for (size_t i = 0; i < NIMG + 2; i++) { try { loader.ExtractImage(i, "x0.bmp"); vf_assert(i < count, "sprite extraction accepted an out-of-range image index"); } catch (const std::exception&) {} }
#endif
  } catch (const std::exception&) {}
  VF_WITNESS();
}
