// C19: ordering, path-equality and bit helpers obey the laws their callers assume.
#include "vf.h"
#include "StringUtility.h"
#include "BitTwiddle.h"
#include "XFile.h"
#include "Archive/ArchiveFile.h"
template class std::__cxx11::basic_string<char>;
using namespace OP2Utility;
#ifndef L
#define L 3
#endif
static bool g_may_throw;
extern "C" void vf_at_throw(void) { vf_assert(g_may_throw, "unexpected error"); }

static std::string sym_string() {
  char b[L]; vf_havoc(b, L);
  uint64_t n = vf_nondet_u64(); vf_assume(n <= L);
  return std::string(b, n);
}
// glibc C locale: bytes >= 0x80 order by their unsigned value, except 0xFF (== EOF as a signed char) which stays -1
static int ref_lower(int c) { if (c < -1) c += 256; return (c >= 'A' && c <= 'Z') ? c + 32 : c; }
// independent reference: case-folded lexicographic "less" on the byte values, shorter prefix first
static bool ref_less(const std::string& a, const std::string& b) {
  for (size_t i = 0; i < L; i++) {
    if (i >= a.size() || i >= b.size()) break;
    int x = ref_lower(a[i]), y = ref_lower(b[i]);
    if (x != y) return x < y;
  }
  return a.size() < b.size();
}
static bool ref_equal(const std::string& a, const std::string& b) {
  if (a.size() != b.size()) return false;
  for (size_t i = 0; i < L; i++) if (i < a.size() && ref_lower(a[i]) != ref_lower(b[i])) return false;
  return true;
}
extern "C" void h_order(void) {
  g_may_throw = false;
  std::string a = sym_string(), b = sym_string(), c = sym_string();
  using StringUtility::IsEqualCaseInsensitive; using StringUtility::IsEqual;
  bool ab = IsEqualCaseInsensitive(a, b), ba = IsEqualCaseInsensitive(b, a), bc = IsEqualCaseInsensitive(b, c), cb = IsEqualCaseInsensitive(c, b),
       ac = IsEqualCaseInsensitive(a, c), ca = IsEqualCaseInsensitive(c, a);
  vf_assert(!IsEqualCaseInsensitive(a, a), "irreflexive");
  vf_assert(!(ab && ba), "asymmetric");
  vf_assert(!(ab && bc) || ac, "transitive");
  bool iab = !ab && !ba, ibc = !bc && !cb, iac = !ac && !ca;
  vf_assert(!(iab && ibc) || iac, "incomparability is transitive");
  vf_assert(iab == IsEqual(a, b), "incomparability coincides with case-insensitive equality");
  vf_assert(ab == ref_less(a, b), "equals the reference case-folded ordering");
  vf_assert(IsEqual(a, b) == ref_equal(a, b), "IsEqual equals the reference case-folded equality");
  VF_WITNESS();
}
// adjacent-duplicate detection on a sorted container is complete
extern "C" void h_dups(void) {
  std::string a = sym_string(), b = sym_string(), c = sym_string();
  using StringUtility::IsEqualCaseInsensitive;
  vf_assume(!IsEqualCaseInsensitive(b, a) && !IsEqualCaseInsensitive(c, b));   // sorted: a <= b <= c
  bool dup = ref_equal(a, b) || ref_equal(b, c) || ref_equal(a, c);
  g_may_throw = dup;
  VF_TRY {
    std::vector<std::string> v; v.push_back(a); v.push_back(b); v.push_back(c);
    Archive::ArchiveFile::VerifySortedContainerHasNoDuplicateNames(v);
    vf_assert(!dup, "duplicate names (ignoring case) were not detected in a sorted container");
    VF_WITNESS();
  } VF_CATCH
}
static unsigned ref_popcount(uint32_t x) { unsigned n = 0; for (int i = 0; i < 32; i++) n += (x >> i) & 1; return n; }
extern "C" void h_pow2(void) {
  g_may_throw = false;
  uint32_t x = vf_nondet_u32();
  vf_assert(IsPowerOf2(x) == (ref_popcount(x) == 1), "IsPowerOf2 is exact");
  VF_WITNESS();
}
extern "C" void h_log2(void) {
  g_may_throw = false;
  uint32_t k = vf_nondet_u32(); vf_assume(k < 32);
  vf_assert(Log2OfPowerOf2(1u << k) == k, "Log2OfPowerOf2(2^k) == k");
  VF_WITNESS();
}
// path laws: the repository's XFile functions executed over the std::filesystem model (stubs/filesystem)
// characters of a plain relative name; the length is concrete per query (LA/LB/LC), the characters are symbolic
#ifndef LA
#define LA 1
#endif
#ifndef LB
#define LB 1
#endif
#ifndef LC
#define LC 1
#endif
static std::string name_string(bool allow_slash, int n) {
  char b[4]; vf_havoc(b, 4);
  for (int i = 0; i < 4; i++) vf_assume(b[i] != 0 && (allow_slash || b[i] != '/'));
  return std::string(b, n);
}
extern "C" void h_paths(void) {
  g_may_throw = false;
  VF_TRY {
    std::string a = name_string(false, LA), b = name_string(false, LB), c = name_string(false, LC);
    vf_assume(a != "." && a != ".." && b != "." && b != ".." && c != "." && c != "..");
    bool ab = XFile::PathsAreEqual(a, b), bc = XFile::PathsAreEqual(b, c), ac = XFile::PathsAreEqual(a, c);
    vf_assert(XFile::PathsAreEqual(a, a), "path equality is reflexive");
    vf_assert(ab == XFile::PathsAreEqual(b, a), "path equality is symmetric");
    vf_assert(!(ab && bc) || ac, "path equality is transitive");
    vf_assert(!StringUtility::IsEqual(a, b) || ab, "path equality contains case-insensitive string equality");
    vf_assert(XFile::PathsAreEqual("./" + a, b) == ab && XFile::PathsAreEqual(a, "./" + b) == ab, "path equality ignores a leading ./");
    VF_WITNESS();
  } VF_CATCH
}
extern "C" void h_join(void) {
  g_may_throw = false;
  VF_TRY {
    std::string d = name_string(false, LA), f = name_string(false, LB);
    vf_assume(f != "." && f != "..");
    std::string j = XFile::Append(d, f);
    vf_assert(XFile::GetFilename(j) == f, "joining a relative directory with a plain name and taking the file name back returns the name");
    std::string dir = XFile::GetDirectory(j);
    vf_assert(XFile::PathsAreEqual(XFile::Append(dir, XFile::GetFilename(j)), j), "splitting into directory and file name and re-joining gives an equal path");
    VF_WITNESS();
  } VF_CATCH
}
extern "C" void h_ext(void) {
  g_may_throw = false;
  VF_TRY {
    std::string f = name_string(false, LA);
    char e[2]; vf_havoc(e, 2); vf_assume(e[0] != 0 && e[0] != '/' && e[0] != '.' && e[1] != 0 && e[1] != '/' && e[1] != '.');
    std::string ext(e, LB);
    vf_assume(f != "." && f != "..");
    std::string g = XFile::ChangeFileExtension(f, ext);
    std::string up = ext, lo = ext;
    for (auto& ch : up) ch = (ch >= 'a' && ch <= 'z') ? ch - 32 : ch;
    for (auto& ch : lo) ch = (ch >= 'A' && ch <= 'Z') ? ch + 32 : ch;
    vf_assert(XFile::ExtensionMatches(g, ext) && XFile::ExtensionMatches(g, up) && XFile::ExtensionMatches(g, lo) && XFile::ExtensionMatches(g, "." + ext),
              "after replacing the extension the name matches it in any letter case, with or without the dot");
    VF_WITNESS();
  } VF_CATCH
}
