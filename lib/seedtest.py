#!/usr/bin/env python3
"""seedtest.py <prop> <seed_src_dir> <n> [--checks C01,C05]:
   1. confirm the seeded change in a scratch worktree (suite passes with it, demo passes without / fails with it),
   2. store it under /verif/seeded/<prop>-<n>/,
   3. apply it to /repo, run the quick check(s), undo it; record what the checks said in meta.json."""
import json, os, re, shutil, subprocess, sys, time
prop, src, n = sys.argv[1], sys.argv[2], sys.argv[3]
checks = [prop]
if "--checks" in sys.argv:
    checks = sys.argv[sys.argv.index("--checks") + 1].split(",")
V = "/verif"; W = "/tmp/vseed_%s_%s" % (prop, n)
def sh(cmd, **kw):
    return subprocess.run(cmd, shell=True, stdout=subprocess.PIPE, stderr=subprocess.STDOUT, text=True, **kw)
dst = "%s/seeded/%s-%s" % (V, prop, n)
os.makedirs(dst, exist_ok=True)
for f in ("patch.diff", "demo.cpp"):
    if os.path.abspath(os.path.join(src, f)) != os.path.abspath(os.path.join(dst, f)):
        shutil.copyfile(os.path.join(src, f), os.path.join(dst, f))
notes = open(os.path.join(src, "notes.txt")).read() if os.path.exists(os.path.join(src, "notes.txt")) else ""
if not notes and os.path.exists(os.path.join(dst, "meta.json")):
    notes = json.load(open(os.path.join(dst, "meta.json"))).get("needs_to_manifest", "")
meta = {"property": prop, "needs_to_manifest": notes[:1500], "ran": []}
if not os.path.exists(W):
    print(sh("git -C /repo worktree add -f %s HEAD" % W).stdout)
sh("git -C %s checkout -q --detach %s && git -C %s checkout -- . " % (W, sh("git -C /repo rev-parse HEAD").stdout.strip(), W))
def build_demo():
    r = sh("cd %s && make -j8 >/dev/null 2>&1; g++ -std=c++17 -I%s/src %s/demo.cpp %s/libOP2Utility.a -lstdc++fs -o %s_demo 2>&1 | tail -3" % (W, W, dst, W, W))
    r2 = sh("cd /tmp && timeout 120 %s_demo 2>&1 | tail -3; echo rc=${PIPESTATUS[0]}" % W, executable="/bin/bash")
    return r.stdout + r2.stdout
base = build_demo()
ok_base = "rc=0" in base
r = sh("git -C %s apply %s/patch.diff" % (W, dst))
applied = r.returncode == 0
suite = sh("cd %s && make -j8 check 2>&1 | tail -1" % W).stdout.strip()
mut = build_demo()
ok_mut = "rc=0" not in mut
meta["confirmed"] = {"patch_applies": applied, "suite_with_patch": suite, "demo_unchanged": base.strip()[-200:], "demo_with_patch": mut.strip()[-300:],
                     "ok": bool(applied and "PASSED  ] 141" in suite and ok_base and ok_mut)}
print("[seed %s-%s] applies=%s suite=%s demo_base_ok=%s demo_mut_fails=%s" % (prop, n, applied, suite, ok_base, ok_mut), flush=True)
if meta["confirmed"]["ok"]:
    # the checks are pointed at the scratch worktree that carries the change (VF_REPO); equivalent to `git -C /repo apply`, run, `git -C /repo checkout -- .`,
    # but leaves /repo alone so that other work can go on
    for c in checks:
        t0 = time.time()
        r = sh("cd %s && VF_REPO=%s timeout 3000 ./check %s --tier quick --no-evidence 2>&1" % (V, W, c))
        viol = re.findall(r"^VIOLATION .*$", r.stdout, re.M)
        cex = re.findall(r"^  counterexample in .*$", r.stdout, re.M)
        inc = re.findall(r"^INCONCLUSIVE .*$", r.stdout, re.M)
        last = r.stdout.strip().split("\n")[-1]
        meta["ran"].append({"check": "VF_REPO=<worktree with patch> ./check %s --tier quick" % c, "exit": r.returncode, "violations": viol[:5], "counterexamples": [x[:300] for x in cex[:5]], "inconclusive": [x[:200] for x in inc[:5]],
                            "summary": last, "wall_s": round(time.time() - t0, 1)})
        print("   check %s: exit=%s %s | %s" % (c, r.returncode, last, (cex[0][:200] if cex else (inc[0][:200] if inc else ""))), flush=True)
meta["detected"] = any(x["exit"] == 1 for x in meta["ran"])
json.dump(meta, open(os.path.join(dst, "meta.json"), "w"), indent=1)
sh("git -C /repo worktree remove --force %s; rm -f %s_demo" % (W, W))
