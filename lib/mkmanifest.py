#!/usr/bin/env python3
"""Regenerates MANIFEST.json from lib/props/*.py (each module carries its own level text)."""
import json, os, sys, importlib
sys.path.insert(0, os.path.dirname(os.path.abspath(__file__)))
V = os.path.dirname(os.path.dirname(os.path.abspath(__file__)))
ALL = ["C%02d" % i for i in range(1, 21)]
NA = {}
try:
    NA = json.load(open(os.path.join(V, "lib", "not_applicable.json")))
except FileNotFoundError:
    pass
checks = []
na = []
for p in ALL:
    if not os.path.exists(os.path.join(V, "lib", "props", p + ".py")):
        na.append({"property_id": p, "reason": NA.get(p, "check not built yet (work in progress in this session; see DESIGN.md section 2 for the plan)")})
        continue
    m = importlib.import_module("props." + p)
    checks.append({
        "property_id": p,
        "quick_cmd": "./check %s --tier quick" % p,
        "thorough_cmd": "./check %s --tier thorough" % p,
        "evidence_file": "evidence/%s.json" % p,
        "replay_cmd_template": "./check %s --replay {path}" % p,
        "engine": "ir2c+cbmc",
        "level_claimed": {"category": "model_checking", "text": m.LEVEL_TEXT, "design_ref": "DESIGN.md section 2, " + p},
        "level_note": m.LEVEL_NOTE,
        "technique": "bounded symbolic execution of the real code: clang-14 LLVM IR of /repo/src -> own IR-to-C translator (ir2c) -> CBMC 6.11 SAT-based bounded model checking with unwinding assertions; counterexamples replayed natively under ASan/UBSan",
    })
man = {
    "version": 1,
    "setup_cmd": "./setup.sh",
    "hooks": {"guard": "OP2UTILITY_VERIF", "enable": "none needed: no hook code exists in /repo; harnesses reach private state with clang -fno-access-control and stub callees at IR level",
              "baseline_off_cmd": "make -C /repo -j16 check", "source_commits": [], "add_only": True},
    "engines": [{"name": "ir2c+cbmc", "path": "lib/engine.py", "serves_properties": [c["property_id"] for c in checks],
                 "kind_free_text": "clang-14 -emit-llvm of the repository's translation units, llvm-link, engine/ir2c (LLVM IR -> C, written for this task), goto-cc + cbmc 6.11 (bounded model checker, SAT), native replay of solver traces with clang++ -fsanitize=address,undefined"}],
    "checks": checks,
    "notes": "Exit codes of ./check: 0 held on everything explored; 1 solver counterexample reproduced against the real build (VIOLATION line); 2 inconclusive (time-out, memory, unwinding bound too small, counterexample that does not reproduce, build error) - never reported as success. Known findings: known_findings.txt.",
    "not_applicable": na,
}
json.dump(man, open(os.path.join(V, "MANIFEST.json"), "w"), indent=1)
print("claimed:", [c["property_id"] for c in checks])
