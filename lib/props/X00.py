from engine import Query
def queries(tier):
    return [Query("str_fs%d" % f, "X_exp.cpp", "h_str", {}, unwind=40, max_alloc=20, timeout=300, fs_array=f) for f in (0, 8, 64)]
