from engine import Query

ASSUMPTIONS = ["PRT byte strings of a concrete shape (palette/image/animation/frame/layer/unknown-container counts and the two optional-data flags) with every other byte symbolic; "
               "image scan-line widths and palette indices are set so that the cross-field rules hold; palette section headers canonical"]
OUTSIDE = ["more than 1 palette, 2 images, 2 animations x 2 frames x 2 layers per query; layer counts up to 127 are covered only through the 7-bit count kernel of C20",
           "non-canonical but accepted palette headers (written back canonically, by design of the property)"]
LEVEL_TEXT = ("Bounded model checking of the real PRT reader and writer: for each shape every scalar, palette entry, layer and container byte is symbolic; oracles are the input bytes (writer must reproduce them), "
              "field-wise equality after re-reading, byte stability, and refusal of every rule-violating value (symbolic deviation).")
LEVEL_NOTE = "Shapes in lib/props/C10.py."


def shape(npal=1, nimg=1, nanim=1, nfr=1, fflags=0, nlay=1, nunk=0):
    return {"NPAL": npal, "NIMG": nimg, "NANIM": nanim, "NFR": nfr, "FFLAGS": fflags, "NLAY": nlay, "NUNK": nunk}


def sname(d):
    return "p%d_i%d_a%d_f%d_o%d_l%d_u%d" % (d["NPAL"], d["NIMG"], d["NANIM"], d["NFR"], d["FFLAGS"], d["NLAY"], d["NUNK"])


def queries(tier):
    S = [shape(0, 0, 0), shape(0, 0, 1, 1, 0, 1, 0), shape(0, 0, 1, 1, 3, 2, 1), shape(0, 0, 2, 2, 1, 0, 0), shape(1, 1, 1, 1, 2, 1, 0), shape(1, 2, 0)]
    if tier == "thorough":
        S += [shape(0, 0, 2, 1, f, 1, 1) for f in range(4)] + [shape(1, 2, 2, 2, 3, 2, 1), shape(0, 0, 1, 2, 0, 2, 0), shape(1, 1, 1, 0, 0, 0, 1)]
    qs = []
    for d in S:
        ln = 8 + d["NPAL"] * 1052 + 4 + 20 * d["NIMG"] + 16 + d["NANIM"] * 200
        qs.append(Query("write_once_" + sname(d), "C10_art.cpp", "h_art_write_once", d, unwind=ln + 80, timeout=900, max_alloc=1 << 16,
                        desc="PRT of shape %s: read, then write on a fixed buffer reproduces the input bytes" % sname(d)))
        qs.append(Query("roundtrip_" + sname(d), "C10_art.cpp", "h_art_roundtrip", d, unwind=ln + 80, timeout=1500, max_alloc=1 << 16,
                        desc="PRT of shape %s: read, cross-field rules, RGB/BGR palettes, write reproduces the input bytes, re-read equal, byte-stable, object unchanged by writing" % sname(d)))
    rej = shape(1, 1, 1, 1, 0, 1, 0)
    for b, bn in enumerate(["scan-line width", "palette index", "header frame total", "header layer total"]):
        qs.append(Query("reject_read_%d" % b, "C10_art.cpp", "h_art_reject_read", dict(rej, BADRULE=b), unwind=1300, timeout=1500, max_alloc=1 << 16,
                        desc="PRT whose %s deviates by any non-zero amount: refused by the reader" % bn))
    rej0 = shape(0, 0, 0)
    for b, bn in ((2, "header frame total"), (3, "header layer total")):
        qs.append(Query("reject_read_%d_no_animations" % b, "C10_art.cpp", "h_art_reject_read", dict(rej0, BADRULE=b), unwind=300, timeout=900,
                        desc="PRT without animations whose %s is any non-zero value: refused by the reader" % bn))
    for b, bn in enumerate(["scan-line width", "palette index", "frame layer count"]):
        qs.append(Query("reject_write_%d" % b, "C10_art.cpp", "h_art_reject_write", dict(rej, BADRULE=b), unwind=1300, timeout=1500, max_alloc=1 << 16,
                        desc="structure whose %s violates the rules (any deviation): refused by the writer" % bn))
    return qs
