from engine import Query

ASSUMPTIONS = ["inductive step: the pre-state is ANY triple of arrays satisfying the representation invariant (leaf/link encoding with even child pairs below their parent, parent map, counts = sum of children, "
               "non-decreasing counts, each symbol on exactly one leaf, root count < 65535), for a concrete symbol count n; the updated symbol is symbolic",
               "the invariant is cross-checked for reachability: it holds for the constructor's tree and along all symbolic update sequences of length K from it"]
OUTSIDE = ["the inductive step for n >= 4 (no verdict within 30 minutes)", "symbol counts above the stated n (the 314-symbol tree of the format runs the same functions; n is a constructor argument)", "counter values are full 16-bit, so long histories are covered by the induction, not by running them"]
LEVEL_TEXT = ("Bounded model checking as a one-step induction: from every valid tree of n symbols (all counts, all shapes) one update with any symbol yields a valid tree identical to an independent reference update; "
              "hence every history within capacity is covered for that n. Encoder/decoder agreement and refusals are decided on the same arbitrary trees.")
LEVEL_NOTE = "inductive step: n = 2 in the quick tier, n = 2 and 3 thorough (n = 3 takes 17 minutes of SAT time, n = 4 gave no verdict in 30 minutes and is not run); encoder/decoder and refusal queries n = 2..4; update sequences from the constructor tree: (n,k) = (2,4) (3,3) (4,3) quick, (2,5) (3,4) (4,3) thorough."


def queries(tier):
    qs = []
    ns = (2, 3, 4) if tier == "quick" else (2, 3, 4, 5, 6)
    for n in ns:
        if n == 2 or (tier == "thorough" and n == 3):      # measured: n=2 76 s, n=3 17 to 27 min, n=4 no verdict in 30 min (SAT time) - not run
            qs.append(Query("update_step_n%d" % n, "C15_huffman.cpp", "h_update_step", {"NSYM": n}, unwind=4 * n + 8, timeout=1800 if n < 4 else 7200,
                        cbmc_opts=(["--sat-solver", "cadical"] if n > 2 else []),
                        desc="one UpdateCodeCount(symbolic symbol) from an arbitrary valid tree of %d symbols: invariant preserved, root and leaf counts +1, tree equals the reference update" % n))
        qs.append(Query("encode_decode_n%d" % n, "C15_huffman.cpp", "h_encode_decode", {"NSYM": n}, unwind=8 * n + 20, timeout=1800,
                        desc="on an arbitrary valid tree of %d symbols the encoder's bit string for a symbolic symbol leads the decoder's walk to that symbol's leaf" % n))
    if tier == "thorough":
        qs.append(Query("encode_decode_n8", "C15_huffman.cpp", "h_encode_decode", {"NSYM": 8}, unwind=8 * 8 + 20, timeout=1800,
                        desc="encoder/decoder agreement on an arbitrary valid tree of 8 symbols (measured 250 s)"))
    # code lengths beyond 16 bits need at least 18 symbols: deepest shape only (which side each inner node sits on, symbols and counts symbolic)
    # (the sibling property forces Fibonacci-like counts along this shape, so 16-bit counters admit it only up to 22 symbols: the n = 24 query was reported vacuous by its witness)
    for n in ((18,) if tier == "quick" else (18, 20, 22)):
        qs.append(Query("encode_decode_chain_n%d" % n, "C15_huffman.cpp", "h_encode_decode", {"NSYM": n, "CHAIN": 1}, unwind=8 * n + 20, timeout=1800,
                        desc="encoder/decoder agreement on every valid tree of %d symbols of the deepest shape (code lengths up to %d bits), sides, symbols and counts symbolic" % (n, n - 1)))
    n = 3
    for r, rn in enumerate(["update at root count 65535", "out-of-range symbol in UpdateCodeCount", "out-of-range symbol in GetEncodedBitString", "out-of-range node in GetChildNode/IsLeaf/GetNodeData"]):
        qs.append(Query("refuse_%d_n%d" % (r, n), "C15_huffman.cpp", "h_refuse", {"NSYM": n, "REFUSE": r}, unwind=4 * n + 8, timeout=900,
                        desc="%s on an arbitrary valid tree of %d symbols: refused with an error, tree unchanged" % (rn, n)))
    import os
    seqs = ((2, 4), (3, 3), (4, 3)) if tier == "quick" else ((2, 5), (3, 4), (4, 3))   # measured (cadical): 136/204 s, 256/333 s, 460 s; (2,6) (3,5) (4,4) gave no verdict in 30 min with minisat
    if os.environ.get("VF_C15_SEQ"): seqs = [tuple(int(x) for x in p.split(":")) for p in os.environ["VF_C15_SEQ"].split(",")]
    for n, k in seqs:
        qs.append(Query("sequence_n%d_k%d" % (n, k), "C15_huffman.cpp", "h_sequence", {"NSYM": n, "KSEQ": k}, unwind=8 * n + 20, timeout=1800,
                        cbmc_opts=["--sat-solver", "cadical"],
                        desc="all sequences of %d symbolic updates from the constructor's %d-symbol tree keep the invariant" % (k, n)))
    return qs
