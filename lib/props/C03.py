from engine import Query

ASSUMPTIONS = ["WAV inputs come from an independent RIFF generator: layout in {minimal, extra even-sized chunk before 'fmt ', between 'fmt ' and 'data', after 'data', 16-byte fmt chunk, 40-byte fmt chunk}, data length 0..6, "
               "the common 18-byte format and all audio bytes symbolic; names and layout are concrete per query",
               "files live in the model file system; names are plain (flat directory)"]
OUTSIDE = ["more than 2 WAV files, data longer than 6 bytes, odd-sized extra chunks (excluded by the property), more than one extra chunk per file", "base names with bytes >= 0x80"]
LEVEL_TEXT = ("Bounded model checking of the real ClmFile writer and reader over the symbolic file system; oracles: an independent RIFF generator for the inputs, an independent description of the CLM layout "
              "applied to the raw bytes the writer produced, and the canonical 46-byte WAV header for extraction. Each query covers every format value and every audio byte of its shape.")
LEVEL_NOTE = "Shapes in lib/props/C03.py; models as for C01."


def cq(name, entry, defs, desc, **kw):
    d = {k: ('"%s"' % v if isinstance(v, str) else v) for k, v in defs.items()}
    return Query(name, "C03_clm.cpp", entry, d, unwind=kw.pop("unwind", 160), vfs_n=5, vfs_cap=kw.pop("vfs_cap", 128), timeout=kw.pop("timeout", 900), desc=desc, **kw)


def base(n):
    return n.rsplit(".", 1)[0]


def shape(nw, names=("b.wav", "Track_8c.WAV"), lays=(0, 0), dls=(3, 6), order=(0, 1)):
    return {"NW": nw, "WNAME0": names[0], "WNAME1": names[1], "BASE0": base(names[0]), "BASE1": base(names[1]), "LAY0": lays[0], "LAY1": lays[1], "DL0": dls[0], "DL1": dls[1],
            "WORD0": order[0], "WORD1": order[1]}


def queries(tier):
    qs = []
    S = [("empty", shape(0)), ("one_min", shape(1)), ("one_after", shape(1, lays=(3, 0), dls=(4, 0))), ("two_min_rev", shape(2, order=(1, 0))),
         ("two_before_between", shape(2, lays=(1, 2), dls=(0, 5))), ("one_fmt40", shape(1, lays=(5, 0), dls=(4, 0))), ("two_after_first", shape(2, names=("A1.wav", "a0.wav"), lays=(0, 3), dls=(2, 3)))]
    if tier == "thorough":
        S += [("two_fmt16", shape(2, lays=(4, 0), dls=(6, 1))), ("two_after_both", shape(2, lays=(3, 3), dls=(1, 2))), ("one_between_0", shape(1, lays=(2, 0), dls=(0, 0))),
              ("two_names8", shape(2, names=("ABCDEFGH.wav", "abcdefg.wav"), lays=(1, 0), dls=(2, 2), order=(1, 0)))]
    for n, d in S:
        qs.append(cq("roundtrip_" + n, "h_clm_roundtrip", d, "CLM from %d WAV file(s) (layouts %s, data lengths %s): raw bytes match the CLM layout description, listing, sizes, stream bytes, extracted WAV" % (d["NW"], (d["LAY0"], d["LAY1"]), (d["DL0"], d["DL1"]))))
    qs.append(cq("refuse_not_riff", "h_clm_refuse", dict(shape(2), BAD=1), "first input does not start with RIFF: refused"))
    qs.append(cq("refuse_not_wave", "h_clm_refuse", dict(shape(1), BAD=4), "input is RIFF but not WAVE: refused"))
    qs.append(cq("refuse_formats_differ", "h_clm_refuse", dict(shape(2), BAD=2), "two inputs whose formats differ in one bit: refused"))
    qs.append(cq("refuse_name_9_chars", "h_clm_refuse", dict(shape(2, names=("b.wav", "NineChars.wav")), BAD=3), "a base name of 9 characters: refused"))
    qs.append(cq("refuse_duplicate_case", "h_clm_refuse", dict(shape(2, names=("song.wav", "SONG.WAV")), BAD=3), "two base names equal ignoring case: refused"))
    return qs
