from engine import Query

ASSUMPTIONS = ["MemoryReader pre-state: any streamSize <= N and any position <= streamSize over N symbolic bytes (the class invariant); "
               "destination buffers have N bytes, so successful reads are explored for k <= N and every larger k must be refused"]
OUTSIDE = ["buffers longer than N bytes (N=8 quick, 16 thorough)"]


def queries(tier):
    qs = []
    n = 8 if tier == "quick" else 16
    qs.append(Query("memreader_step_N%d" % n, "C12_memreader.cpp", "h_step", {"N": n}, unwind=n + 2,
                    desc="one arbitrary operation {Read,ReadPartial,SeekForward,SeekBackward,Seek,Peek,SeekBeginning/End} with a free 64-bit argument "
                         "from an arbitrary valid MemoryReader state over %d symbolic bytes" % n))
    return qs

LEVEL_TEXT = ("Bounded model checking of the real reader code: one arbitrary operation with free 64-bit arguments from an arbitrary valid state "
              "(inductive step, so histories of any length are covered for the state invariant position <= length), all buffer contents up to the stated length; "
              "the solver decides every argument value including those near 2^64, which is where these bounds checks break.")
LEVEL_NOTE = ("Holds for buffers up to N bytes (8 quick / 16 thorough); trusted: clang IR, ir2c translation (witness traces are replayed natively), CBMC; "
              "file-backed slices use the fstream/vfs model.")
