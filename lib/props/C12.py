from engine import Query

ASSUMPTIONS = ["MemoryReader pre-state: any streamSize <= N and any position <= streamSize over N symbolic bytes (the class invariant); "
               "destination buffers have N bytes, so successful reads are explored for k <= N and every larger k must be refused"]
OUTSIDE = ["buffers longer than N bytes (N=8 quick, 16 thorough)"]


def queries(tier):
    qs = []
    n = 8 if tier == "quick" else 16
    qs.append(Query("memreader_step_N%d" % n, "C12_memreader.cpp", "h_step", {"N": n}, unwind=n + 2,
                    desc="one arbitrary operation {Read,ReadPartial,SeekForward,SeekBackward,Seek,Peek,SeekBeginning/End} with a free 64-bit argument "
                         "from an arbitrary valid MemoryReader state over %d symbolic bytes" % n))
    fs = 6 if tier == "quick" else 10
    qs.append(Query("fileslice_step_F%d" % fs, "C12_fileslice.cpp", "h_step", {"FSIZE": fs}, unwind=fs + 3, vfs_cap=16,
                    desc="one arbitrary operation with a free 64-bit argument on a SliceReader<FileReader> with symbolic slice offset/length/position "
                         "over a %d-byte symbolic file; afterwards position, length and the remaining bytes must be those of the reference cursor" % fs))
    ops = ["Read<uint8_t>(vector<uint8_t>)", "Read<int8_t>(vector<uint16_t>)", "Read<uint32_t>(string)", "Read<int32_t>(vector<uint32_t>)",
           "Read(uint32_t&)", "ReadNullTerminatedString(maxCount)"]
    for i, o in enumerate(ops):
        ma = 24 if i == 2 else 64      # std::string growth (SSO -> heap with a symbolic length) is far costlier than vector growth
        qs.append(Query("typed_op%d_N%d" % (i, n), "C12_typed.cpp", "h_typed", {"N": n, "OP": i}, unwind=ma + 6, max_alloc=ma,
                        desc="%s at an arbitrary position of an arbitrary %d-byte MemoryReader: consumes exactly its encoded size, negative/unsatisfiable sizes refused" % (o, n)))
    for op, on in enumerate(["Read<int8_t>(vector<uint8_t>)", "Read<int8_t>(vector<uint16_t>)", "Read<uint8_t>(vector<uint32_t>)"]):
        qs.append(Query("prefix_kernel_op%d" % op, "C12_typed.cpp", "h_prefix_kernel", {"N": 8, "OP": op}, unwind=20, max_alloc=1100, timeout=600,
                        redirects={"_ZNSt6vectorIhSaIhEE17_M_default_appendEm": "stub_default_append_u8", "_ZNSt6vectorItSaItEE17_M_default_appendEm": "stub_default_append_u16",
                                   "_ZNSt6vectorIjSaIjEE17_M_default_appendEm": "stub_default_append_u32"},
                        desc="%s over a kernel reader that delivers an arbitrary prefix and is long enough for any count (allocation cap 1100 bytes): a negative prefix never reaches the container read, and that read has prefix x element-size bytes" % on))
    return qs

LEVEL_TEXT = ("Bounded model checking of the real reader code: one arbitrary operation with free 64-bit arguments from an arbitrary valid state "
              "(inductive step, so histories of any length are covered for the state invariant position <= length), all buffer contents up to the stated length; "
              "the solver decides every argument value including those near 2^64, which is where these bounds checks break.")
LEVEL_NOTE = ("Holds for buffers up to N bytes (8 quick / 16 thorough); trusted: clang IR, ir2c translation (witness traces are replayed natively), CBMC; "
              "file-backed slices use the fstream/vfs model.")
