from engine import Query
from props import C06, C10

ASSUMPTIONS = ["self-composition: each scenario is executed twice inside one query; the objects of run A and run B are constructed by placement new in buffers of arbitrary (symbolic) bytes, "
               "and every heap block is arbitrary per allocation in the CBMC memory model, so 'different garbage in fresh memory' is a symbolic input",
               "input orderings / path spellings: the two listing orders of two files, plain and ./ spellings"]
OUTSIDE = ["address-space layout beyond 'no pointer value may reach an output byte without a failed equality'", "scenarios on shapes larger than those listed; tileset pictures (C09 already compares the written bytes with a description that leaves no free byte)",
           "never-written locals that clang -O1 turns into IR undef are translated as fresh arbitrary values (ir2c --undef-nondet); natively the harness scribbles the stack with a solver-chosen pattern before each run and fresh heap blocks carry per-allocation garbage"]
LEVEL_TEXT = ("Bounded model checking of a two-run self-composition of the real serialisers and parsers: the solver looks for ANY content of fresh memory under which two runs on the same logical input differ in an output byte or a parsed field.")
LEVEL_NOTE = "Counterexamples replay natively: the garbage bytes are part of the trace."


def queries(tier):
    qs = [Query("map_default", "C18_determinism.cpp", "h_map_default", C06.shape(0, 0, nts=0, nmap=0, ngrp=0), unwind=200, timeout=900,
                desc="two default-constructed Map objects in differently filled memory, both written: identical bytes"),
          Query("art_default", "C18_determinism.cpp", "h_art_default", C10.shape(0, 0, 0), unwind=200, timeout=900,
                desc="two default-constructed ArtFile objects in differently filled memory, both written: identical bytes")]
    # (the last shape has its EMPTY-named tileset source first: a value left over from an earlier loop iteration would be deterministic, fresh garbage is not)
    for d in C06.shapes(tier)[2:5] + [C06.shape(2, 2, nts=2, tsl0=0, tsl1=3, nmap=0, ngrp=1, gw=2, gh=1, gnl=2)]:
        qs.append(Query("map_parse_" + C06.sname(d), "C18_determinism.cpp", "h_map_parse", d, unwind=C06.maxlen(d) + 30, timeout=900,
                        desc="map bytes of shape %s parsed twice into differently filled memory: equal maps, identical bytes when written" % C06.sname(d)))
    for d in [C10.shape(0, 0, 1, 1, 3, 2, 1), C10.shape(0, 0, 2, 2, 1, 0, 0)]:
        qs.append(Query("art_parse_" + C10.sname(d), "C18_determinism.cpp", "h_art_parse", d, unwind=400, timeout=900,
                        desc="PRT bytes of shape %s parsed twice into differently filled memory: equal structures, identical bytes when written" % C10.sname(d)))
    for bc, w, h, used in ((1, 9, 2, 0), (4, 3, -2, 5)):
        qs.append(Query("bitmap_d%d_w%d" % (bc, w), "C18_determinism.cpp", "h_bmp", {"BC": bc, "BW": w, "BH": "(%d)" % h, "USED": used}, unwind=400, timeout=900,
                        desc="bitmap (depth %d, %dx%d) parsed twice and factory-made twice in differently filled memory: equal objects, identical bytes" % (bc, w, h)))
    qs.append(Query("vol_create_orders", "C18_determinism.cpp", "h_vol_create", {}, unwind=200, vfs_n=4, vfs_cap=128, timeout=900,
                    desc="VOL created from the same two files listed in both orders, with and without ./: byte-identical archives"))
    qs.append(Query("clm_create_orders", "C18_determinism.cpp", "h_clm_create", {}, unwind=200, vfs_n=6, vfs_cap=128, timeout=900,
                    desc="CLM created twice from the same two WAV files (both orders, ./ spelling) and a member extracted from each: byte-identical archives and WAV files"))
    for q in qs:
        q.ir2c_opts = ["--undef-nondet"]      # a value the optimiser proved never-written (IR undef) is arbitrary, and independently so at each use
    return qs
