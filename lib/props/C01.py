import itertools
from engine import Query

ASSUMPTIONS = ["input files live in the model file system (flat directory); names, sizes (0..9) and listing order are concrete per query, every content byte is symbolic",
               "path spellings: plain name and ./name (std::filesystem is modelled by stubs/filesystem; XFile.cpp itself is the repository's code)",
               "lookup case variants: case masks are enumerated (all 32 for two 4-letter names in the thorough tier, 10 in quick); a symbolic mask does not finish (string-valued path code)"]
OUTSIDE = ["more than 3 members; sizes of 10 bytes or more (the default 128 KiB copy chunk is exercised with these small files; chunk boundaries are covered by C14 with chunk sizes 1/2/4)",
           "inputs in other directories, path spellings other than name and ./name", "names with bytes >= 0x80"]
LEVEL_TEXT = ("Bounded model checking of the real VolFile writer and reader over a symbolic file system: for each shape (names, order, sizes) every content byte and every case mask is covered by one solver query; "
              "the oracle is the inputs themselves plus an independent case-folding order.")
LEVEL_NOTE = "Shapes enumerated in lib/props/C01.py; the fstream/filesystem models are validated by replaying each witness trace against the real library on real files."

NAMESETS = [("b.TXT", "A.map", "c_1"), ("Zz", "zY.x", "a-b.c"), ("op2.ART", "OP1.art", "op10.x"), ("a_b.t", "ab.t", "A^c")]


def q(name, entry, defs, desc, **kw):
    d = {k: ('"%s"' % v if isinstance(v, str) else v) for k, v in defs.items()}
    return Query(name, "C01_vol.cpp", entry, d, unwind=kw.pop("unwind", 200), vfs_n=7, vfs_cap=256, timeout=kw.pop("timeout", 900), desc=desc, **kw)


def pack_shapes(tier):
    S = []
    # (nf, names, sizes, order, prefix)
    S.append((0, NAMESETS[0], (0, 0, 0), (0, 1, 2), ""))
    S.append((1, NAMESETS[0], (3, 0, 0), (0, 1, 2), ""))
    S.append((1, NAMESETS[1], (0, 0, 0), (0, 1, 2), "./"))
    S.append((2, NAMESETS[0], (1, 6, 0), (1, 0, 2), ""))
    S.append((2, NAMESETS[2], (4, 2, 0), (0, 1, 2), "./"))
    S.append((3, NAMESETS[0], (3, 0, 5), (2, 0, 1), ""))
    S.append((3, NAMESETS[1], (7, 9, 8), (1, 2, 0), ""))
    S.append((3, NAMESETS[3], (1, 2, 3), (0, 1, 2), ""))     # '_' and '^' sort between the upper- and lower-case letters: the two foldings disagree
    if tier == "thorough":
        for ns in NAMESETS:
            for order in itertools.permutations(range(3)):
                S.append((3, ns, (1 + order[0], 2 + 2 * order[1], 9 - order[2]), order, ""))
        for sz in range(10):
            S.append((2, NAMESETS[1], (sz, 9 - sz, 0), (0, 1, 2), "./"))
    seen, out = set(), []
    for s in S:
        if s not in seen:
            seen.add(s); out.append(s)
    return out


def sdefs(s):
    nf, names, sizes, order, prefix = s
    return {"NF": nf, "NAME0": names[0], "NAME1": names[1], "NAME2": names[2], "SZ0": sizes[0], "SZ1": sizes[1], "SZ2": sizes[2],
            "ORD0": order[0], "ORD1": order[1], "ORD2": order[2], "PREFIX": prefix}


def sname(s):
    nf, names, sizes, order, prefix = s
    return "n%d_%s_sz%s_ord%s%s" % (nf, names[0].replace(".", ""), "".join(map(str, sizes[:max(nf, 1)])), "".join(map(str, order[:max(nf, 1)])), "_dot" if prefix else "")


def queries(tier):
    qs = []
    for s in pack_shapes(tier):
        qs.append(q("roundtrip_" + sname(s), "h_pack_roundtrip", sdefs(s),
                    "pack %d file(s) %s sizes %s listed in order %s with prefix '%s': reopen, listing/order/sizes/kind, member stream bytes" % (s[0], s[1][:s[0]], s[2][:s[0]], s[3][:s[0]], s[4])))
        if s[0]:
            qs.append(q("extract_" + sname(s), "h_pack_extract", sdefs(s), "same archive: every member extracted to disk (by index and by name) equals its input"))
    s = (2, NAMESETS[0], (1, 2, 0), (0, 1, 2), "")
    # every case mask of the 4 letters of 'A.map' (member 0) and 'b.TXT' (member 1), with and without ./ (bit 31); quick: a spread of 10 masks
    lettermasks = {0: [0b00001, 0b00100, 0b01000, 0b10000], 1: [0b00001, 0b00100, 0b01000, 0b10000]}
    for look in (0, 1):
        allm = []
        for bits in range(16):
            m = sum(lettermasks[look][k] for k in range(4) if (bits >> k) & 1)
            allm += [m, m | (1 << 31)]
        if tier == "quick":
            allm = [allm[i] for i in (0, 3, 9, 14, 31)] if look == 0 else [allm[i] for i in (1, 6, 16, 25, 30)]
        for m in allm:
            qs.append(q("lookup_member%d_mask%x" % (look, m), "h_lookup_case", dict(sdefs(s), LOOK=look, MASK=m),
                        "archive of b.TXT and A.map: member %d looked up (Contains, GetIndex, OpenStream by name) with case mask %s%s" % (look, bin(m & 0x1F), " behind ./" if m >> 31 else "")))
    # letters at the ends of the alphabet: 'Zz' / 'zY.x' under a few masks
    sz = (2, NAMESETS[1], (1, 2, 0), (0, 1, 2), "")
    for look, m in ((0, 0b0001), (0, 0b1010 | (1 << 31)), (1, 0b01), (1, 0b11 | (1 << 31))):
        qs.append(q("lookup_z_member%d_mask%x" % (look, m), "h_lookup_case", dict(sdefs(sz), LOOK=look, MASK=m),
                    "archive of Zz and zY.x: member %d looked up with case mask %s%s" % (look, bin(m & 0x1F), " behind ./" if m >> 31 else "")))
    s = (2, NAMESETS[0], (3, 6, 0), (0, 1, 2), "")
    qs.append(q("extract_all_" + sname(s), "h_extract_all", sdefs(s), "pack 2 files, ExtractAllFiles into the directory: every member's bytes land under its name"))
    # refusals
    dup = dict(sdefs((2, ("read.Me", "READ.me", "x"), (2, 3, 0), (0, 1, 2), "")))
    qs.append(q("refuse_duplicate_case", "h_pack_refuse", dup, "two inputs whose names are equal ignoring case: refused before anything is created"))
    dup3 = dict(sdefs((3, ("k.a", "j.b", "K.A"), (1, 1, 1), (0, 1, 2), "")))
    qs.append(q("refuse_duplicate_nonadjacent_listing", "h_pack_refuse", dup3, "three inputs, first and third equal ignoring case: refused before anything is created"))
    for nm, (outpath, outfile) in {"same": ("b.TXT", "b.TXT"), "dotslash": ("./b.TXT", "b.TXT"), "othercase": ("B.txt", "B.txt"), "dotslash_othercase": ("./B.TXT", "B.TXT")}.items():
        # when the output IS the input file itself no separate model file is registered for it
        d = dict(sdefs((2, NAMESETS[0], (3, 2, 0), (1, 0, 2), "")), OUTPATH=outpath, OUTFILE=outfile if outfile != "b.TXT" else "unused.vol", OUT_EXISTS=1 if outfile != "b.TXT" else 0)
        qs.append(q("refuse_output_is_input_" + nm, "h_pack_refuse", d, "output path '%s' names the input 'b.TXT' (up to letter case and ./): refused before any file is created or modified" % outpath))
    d = dict(sdefs((2, NAMESETS[0], (3, 2, 0), (0, 1, 2), "./")), OUTPATH="a.MAP", OUTFILE="a.MAP", OUT_EXISTS=1)
    qs.append(q("refuse_output_is_dotslash_input", "h_pack_refuse", d, "inputs listed as ./name, output 'a.MAP' equals input 'A.map' ignoring case: refused before any file is modified"))
    return qs
