from engine import Query

ASSUMPTIONS = ["structural fields of the byte string (log-width, height, table counts, name lengths, group dimensions) are concrete per query; every other byte (version tag >= 0x1010, flag word, tiles, rectangle, names, table contents, trailing bytes) is symbolic",
               "edits are applied to the map read from such a byte string, with in-range symbolic coordinates and arguments; longer edit sequences follow by induction because each edit is checked from an arbitrary map of the shape"]
OUTSIDE = ["widths above 2^6 and more than 64 tiles; more than 2 tileset sources / 1 mapping / 1 terrain type / 2 tile groups per query (table loops are the same code for every count)",
           "names longer than 8 bytes", "TrimTilesetSources with symbolic emptiness (the emptiness pattern is enumerated instead; symbolic emptiness makes std::remove_if explode in symbolic execution)"]
LEVEL_TEXT = ("Bounded model checking of the real Map reader and writer: for each shape the solver covers every value of every non-structural byte; the oracle is the input byte string itself "
              "(written bytes must equal consumed bytes up to the two documented words), field-wise equality after re-reading, and byte stability of the second write.")
LEVEL_NOTE = "Shapes enumerated by lib/props/C06.py; unwinding assertions on; MemoryReader/DynamicMemoryWriter are the real stream classes."


def shape(lg, h, nts=2, tsl0=1, tsl1=0, nmap=1, nter=0, ngrp=1, gw=1, gh=2, gnl=1, trail=0):
    return {"LG": lg, "H": h, "NTS": nts, "TSL0": tsl0, "TSL1": tsl1, "NMAP": nmap, "NTER": nter, "NGRP": ngrp, "GW": gw, "GH": gh, "GNL": gnl, "TRAIL": trail}


def sname(d):
    return "lg%d_h%d_ts%d-%d-%d_m%d_t%d_g%d-%dx%d-%d_tr%d" % (d["LG"], d["H"], d["NTS"], d["TSL0"], d["TSL1"], d["NMAP"], d["NTER"], d["NGRP"], d["GW"], d["GH"], d["GNL"], d["TRAIL"])


def shapes(tier):
    S = [shape(0, 0, nts=0, nmap=0, ngrp=0), shape(3, 0, nts=0, nmap=0, ngrp=0), shape(0, 1, trail=2), shape(1, 2, nts=2, tsl0=8, tsl1=0), shape(2, 1, nts=1, tsl0=1, nter=1, ngrp=2, gw=0, gh=3, gnl=0),
         shape(2, 2, nts=2, tsl0=0, tsl1=3, nmap=0, ngrp=1, gw=2, gh=1, gnl=2)]
    if tier == "thorough":
        S += [shape(3, 2), shape(4, 1, nts=3, tsl0=2, tsl1=8), shape(5, 2, nmap=2, nter=1), shape(0, 3, ngrp=2, gw=2, gh=2, gnl=3, trail=5), shape(6, 1, nts=0, ngrp=0)]
    return S


def maxlen(d):
    nt = d["H"] << d["LG"]
    return 20 + nt * 4 + 16 + d["NTS"] * 16 + 10 + 4 + d["NMAP"] * 8 + 4 + d["NTER"] * 264 + 16 + d["NGRP"] * (8 + d["GW"] * d["GH"] * 4 + 4 + d["GNL"]) + d["TRAIL"]


def queries(tier):
    qs = []
    for d in shapes(tier):
        uw = maxlen(d) + 24       # the longest loops are byte copies of the whole (concrete-length) image
        qs.append(Query("write_once_" + sname(d), "C06_map.cpp", "h_bytes_write_once", d, unwind=uw, timeout=300,
                        desc="map byte string of shape %s: ReadMap then Write reproduces the consumed bytes up to the flag/unknown words" % sname(d)))
        qs.append(Query("object_bytes_" + sname(d), "C06_map.cpp", "h_object_bytes", d, unwind=uw, timeout=300,
                        desc="Map object of shape %s with all scalar fields symbolic: Write produces exactly the independent reference encoding of its fields" % sname(d)))
        qs.append(Query("bytes_" + sname(d), "C06_map.cpp", "h_bytes_roundtrip", d, unwind=uw, timeout=300,
                        desc="map byte string of shape %s, all other bytes symbolic: ReadMap consumes it, Write reproduces the consumed bytes up to the flag/unknown words, re-read equal, second write identical" % sname(d)))
        qs.append(Query("object_" + sname(d), "C06_map.cpp", "h_object_roundtrip", d, unwind=uw, timeout=300,
                        desc="Map object of shape %s with all scalar fields symbolic: Write then ReadMap gives an equal map and consumes everything" % sname(d)))
    for d in shapes(tier)[2:4]:
        qs.append(Query("write_once_symbolic_marker_" + sname(d), "C06_map.cpp", "h_bytes_write_once", dict(d, SYMMARK=None), unwind=maxlen(d) + 24, timeout=300,
                        desc="as write_once, but the ten 'TILE SET' marker bytes and the two repeated version tags are symbolic: whatever the reader accepts is written back byte for byte" ))
    eshape = shape(5, 1, nts=2, tsl0=1, tsl1=0, ngrp=0)
    for e, en in enumerate(["SetCellType", "SetLavaPossible", "SetVersionTag"]):
        qs.append(Query("edit_%s_32x1" % en, "C06_map.cpp", "h_edit", dict(eshape, EDIT=e), unwind=maxlen(eshape) + 24, timeout=900,
                        desc="%s with symbolic in-range arguments on an arbitrary 32x1 map: the written and re-read map differs from the original exactly in what the edit names" % en))
    pats = [(0, 0), (1, 0), (2, 2), (5, 4), (7, 2)] if tier == "quick" else [(p, w) for p in range(8) for w in (0, p)]
    for p, w in sorted(set(pats)):
        qs.append(Query("trim_pat%d_why%d" % (p, w), "C06_map.cpp", "h_trim", {"PAT": p, "WHY": w}, unwind=120, timeout=600,
                        desc="TrimTilesetSources on 3 sources with emptiness pattern %s (reason mask %s: 1 = zero tile count, 0 = empty name), names symbolic: exactly the empty ones are removed, order kept, result round-trips" % (bin(p), bin(w))))
    if tier == "thorough":
        e2 = shape(6, 2, nts=3, tsl0=1, tsl1=0, ngrp=0)
        for e, en in enumerate(["SetCellType", "SetLavaPossible", "SetVersionTag"]):
            qs.append(Query("edit_%s_64x2" % en, "C06_map.cpp", "h_edit", dict(e2, EDIT=e), unwind=maxlen(e2) + 24, timeout=1800,
                            desc="%s with symbolic in-range arguments on an arbitrary 64x2 map" % en))
    return qs
