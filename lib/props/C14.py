from engine import Query

ASSUMPTIONS = ["fixed-buffer writer: arbitrary valid pre-state (size <= N, offset <= size) with 8-byte guard zones either side",
               "growing writer: arbitrary content of length <= 4, growth operations explored up to 8/12 bytes and required to fail beyond the allocation bound VF_MAX_ALLOC",
               "size-prefixed writes use a counting Writer subclass so that the container size is a free value up to 2^40",
               "file writer: vfs/fstream model of libstdc++'s open-mode table (validated natively by replaying each witness trace against the real std::ofstream)"]
OUTSIDE = ["buffers longer than N bytes", "stream copy with the default 128 KiB chunk (chunk sizes 1,2,4 are instantiated through the same template)",
           "FileWriter seeks; directories other than the current one"]
LEVEL_TEXT = ("Bounded model checking of the real writer code: one-step induction for MemoryWriter and DynamicMemoryWriter with free 64-bit arguments "
              "(wrap-around decided by the solver), full-range container sizes against every prefix width, all open-flag values x file existence, "
              "stream copy over all start positions for chunk sizes 1/2/4 and three backends.")
LEVEL_NOTE = "Bounds: N=6 (quick) / 10 (thorough) bytes; sequences are covered by induction on the writer state; environment models as listed in the evidence."


def queries(tier):
    n = 6 if tier == "quick" else 10
    qs = [Query("memwriter_step_N%d" % n, "C14_writers.cpp", "h_memwriter_step", {"N": n}, unwind=n + 24,
                desc="one arbitrary operation {Write(k bytes), Seek, SeekForward, SeekBackward, typed Write} with a free 64-bit argument on a MemoryWriter in an arbitrary valid state; only the implied bytes change, failures change nothing")]
    for l0 in ([0, 3] if tier == "quick" else [0, 1, 2, 3, 4]):
        for op, on in enumerate(["Write(k<=4 bytes)", "SeekForward(d)", "SeekBackward(d)", "Seek(p)", "typed Write(uint16_t)"]):
            qs.append(Query("dynwriter_len%d_op%d" % (l0, op), "C14_writers.cpp", "h_dynwriter_step", {"N": n, "LEN0": l0, "DOP": op}, unwind=70, max_alloc=64, timeout=600,
                            desc="%s with a free 64-bit argument on a DynamicMemoryWriter holding %d arbitrary bytes: content equals the reference byte vector, reading back returns it" % (on, l0)))
    for p, nm in enumerate(["uint8_t", "uint16_t", "uint32_t", "int8_t", "int32_t", "int16_t"]):
        qs.append(Query("prefix_%s" % nm, "C14_writers.cpp", "h_prefix", {"PFX": p}, unwind=10,
                        desc="Write<%s>(container) for every container size up to 2^40: refused iff the size does not fit the prefix, otherwise prefix == size followed by exactly the elements" % nm))
    for c in ([0, 2] if tier == "quick" else [0, 1, 2, 3]):
        qs.append(Query("typed_inverse_cnt%d" % c, "C14_writers.cpp", "h_typed_inverse", {"CNT": c}, unwind=48, timeout=600,
                        desc="typed writes (uint8/uint16/int32/uint32 prefixes, scalar, string) followed by the matching typed reads return the same values, %d elements each, contents symbolic" % c))
    for b, bn in enumerate(["memory (symbolic length)", "file", "slice of file"]):
        for ch in (1, 2, 4):
            qs.append(Query("copy_chunk%d_backend%d_N%d" % (ch, b, n), "C14_writers.cpp", "h_copy", {"N": n, "CHUNK": ch, "BACKEND": b}, unwind=n + 6, vfs_cap=16, timeout=600,
                            desc="Writer::Write<%d>(Reader&) from every start position of a %s source of up to %d bytes: destination == remaining bytes" % (ch, bn, n)))
    qs.append(Query("filewriter_flags", "C14_writers.cpp", "h_filewriter", {}, unwind=10, vfs_cap=16,
                    desc="FileWriter(name, flags) for all 16 flag values x {file exists, does not}: creates / refuses / truncates / preserves-and-appends exactly per the flag table; then writes 2 bytes"))
    return qs
