from engine import Query

GETNEXT = "_ZN10OP2Utility7Archive6HuffLZ11GetNextCodeEv"
UPDATE = "_ZN10OP2Utility7Archive19AdaptiveHuffmanTree15UpdateCodeCountEt"
TREECTOR = "_ZN10OP2Utility7Archive19AdaptiveHuffmanTreeC2Et"
STUBS = {GETNEXT: "stub_GetNextCode_rec", UPDATE: "stub_UpdateCodeCount", TREECTOR: "stub_TreeCtor"}

ASSUMPTIONS = ["compositional: the adaptive Huffman layer (GetNextCode + UpdateCodeCount) is replaced at IR level by its contract from C15 - each call yields ANY code below 314 after consuming 1..12 bits - "
               "so the LZ layer is decided for every code sequence, not only those a particular tree would produce; the tree itself is C15's subject",
               "bit reader: arbitrary valid state over up to 4 symbolic bytes (one-step induction); position prefix table: all 256 prefixes",
               "whole-decoder queries start from the fresh decoder over INLEN symbolic input bytes and compare with a reference LZ decoder (4 KiB space-filled window) driven by the same code choices"]
OUTSIDE = ["the composition of the real 314-symbol tree with the LZ layer in one query (a single code on the real tree did not finish: three 627/941-entry tables indexed symbolically)",
           "inputs longer than INLEN bytes end-to-end (the number of codes grows with the input); drain sequences longer than two GetData calls / three GetInternalBuffer calls; the refill path after 4034 buffered bytes",
           "encoder-produced streams (no encoder exists in the library); VolFile::ExtractFileLzh (same GetInternalBuffer loop, over the file model) is not run"]
LEVEL_TEXT = ("Bounded model checking of the real HuffLZ and BitStreamReader code against independent descriptions: MSB-first zero-padded bit order, the LZHUF position prefix table, and a reference LZ window decoder; "
              "the Huffman layer is abstracted by the contract proved in C15, which makes every code sequence symbolic.")
LEVEL_NOTE = "Native replay uses the same harness with the real Huffman layer disabled only in the solver; counterexamples of stubbed queries are replayed through the generated code when they cannot be replayed natively."


def queries(tier):
    qs = [Query("offset_modifiers", "C04_lzh.cpp", "h_offset_modifiers", {}, unwind=70, desc="GetOffsetModifiers for all 256 prefixes equals the LZHUF position table; 9..14 bits per position, upper part < 64"),
          Query("bitreader_step", "C04_lzh.cpp", "h_bitreader_step", {}, unwind=12, desc="ReadNextBit / ReadNext8Bits from an arbitrary valid BitStreamReader state over <= 4 symbolic bytes: MSB-first bits, zeros past the end, no read outside the buffer")]
    # The LZ-layer queries below need more than 30 minutes each on this machine (measured 2026-10-03: still running after 20 minutes at
    # 2-8 GB); they are in the thorough tier only, with a one-hour cap, and are reported inconclusive when they hit it.
    if tier == "quick":
        return qs
    for w in (0, 4070):
        qs.append(Query("decompress_code_w%d" % w, "C04_lzh.cpp", "h_decompress_code", {"WIDX": w}, unwind=70, unwindset={"__vf_libc_memcmp.0": 4100}, timeout=3600, redirects=STUBS, native=False, fs_array=64,
                        desc="one DecompressCode with an arbitrary code < 314 from an arbitrary 4 KiB window at write index %d: window equals the reference decoder's window, write index advances by 1 or code-253 modulo 4096" % w))
    for inlen, drain in ((1, 0), (2, 0), (2, 1), (2, 2)):
        qs.append(Query("decode_in%d_drain%d" % (inlen, drain), "C04_lzh.cpp", "h_decode", {"INLEN": inlen, "DRAIN": drain, "OUTCAP": 60 * 8 * inlen + 8}, unwind=60 * 8 * inlen + 24, timeout=3600, redirects=STUBS, native=False, fs_array=64,
                        unwindset={"_ZN10OP2Utility7Archive6HuffLZ20FillDecompressBufferEv.0": 8 * inlen + 2, "_ZN10OP2Utility7Archive6HuffLZ14DecompressCodeEv.0": 62,
                                   "_ZN10OP2Utility7Archive6HuffLZ7GetDataEPcm.0": 4},
                        desc="fresh decoder over %d symbolic input byte(s), every code sequence: output via %s equals the reference LZ decoder's, nothing written past the caller's buffer" % (inlen, ["one GetData call", "two GetData calls (symbolic split)", "GetInternalBuffer"][drain])))
    return qs
