from engine import Query

GETNEXT = "_ZN10OP2Utility7Archive6HuffLZ11GetNextCodeEv"
UPDATE = "_ZN10OP2Utility7Archive19AdaptiveHuffmanTree15UpdateCodeCountEt"
TREECTOR = "_ZN10OP2Utility7Archive19AdaptiveHuffmanTreeC2Et"
STUBS = {GETNEXT: "stub_GetNextCode_rec", UPDATE: "stub_UpdateCodeCount", TREECTOR: "stub_TreeCtor"}

ASSUMPTIONS = ["ring-index queries: DecompressCode is replaced (IR-level redirect in the solver; weakened symbol + harness definition in the native replay build) by its index contract - appends 1..60 bytes at the write index modulo 4096, "
               "reports end of stream at will; the ring indices of the pre-state are ARBITRARY below 4096 (one-step induction over fill histories)",
               "copy_ring / getdata_ring: variable-length memcpy calls inside CopyAvailableData/GetData are replaced IN THE SOLVER by a hook that records (destination, source, length) - the window contents never enter the formula; the native replay executes the real memcpy over a position-revealing window and compares bytes",
               "compositional: the adaptive Huffman layer (GetNextCode + UpdateCodeCount) is replaced at IR level by its contract from C15 - each call yields ANY code below 314 after consuming 1..12 bits - "
               "so the LZ layer is decided for every code sequence, not only those a particular tree would produce; the tree itself is C15's subject",
               "bit reader: arbitrary valid state over up to 4 symbolic bytes (one-step induction); position prefix table: all 256 prefixes",
               "whole-decoder queries start from the fresh decoder over INLEN symbolic input bytes and compare with a reference LZ decoder (4 KiB space-filled window) driven by the same code choices"]
OUTSIDE = ["DecompressCode, i.e. what is written INTO the 4 KiB window (literals, match copies from distance+1 behind), and therefore 'output equals the reference decoder' end to end: "
           "the window object defeats the encoding (see lib/props/C04.py for the measurements); decided are the bit reader, the position prefix table, GetRepeatOffset, the ring-INDEX arithmetic of FillDecompressBuffer, GetInternalBuffer, "
           "CopyAvailableData and GetData (which bytes of the window are handed out, in which order, to where - for every ring state and request size), and (in C15) the Huffman tree",
           "the composition of the real 314-symbol tree with the LZ layer in one query (a single code on the real tree did not finish: three 627/941-entry tables indexed symbolically)",
           "inputs longer than INLEN bytes end-to-end (the number of codes grows with the input); drain sequences longer than two GetData calls / three GetInternalBuffer calls; the refill path after 4034 buffered bytes",
           "encoder-produced streams (no encoder exists in the library); VolFile::ExtractFileLzh (same GetInternalBuffer loop, over the file model) is not run"]
LEVEL_TEXT = ("PARTIAL: bounded model checking of the two leaf components of the decoder against independent descriptions - the bit reader (one-step induction: MSB-first, zero-padded past the end, never outside its buffer) "
              "and the LZHUF position prefix table (all 256 prefixes) - plus the ring-index arithmetic of the window layer (fill bound, internal-buffer extents, the copying drain and GetData with their memcpy calls recorded instead of executed) by one-step induction from arbitrary ring indices; the adaptive Huffman tree is C15. "
              "What DecompressCode writes into the window could not be decided within the solver budget and is not claimed.")
LEVEL_NOTE = "Stubs: the Huffman tree constructor is replaced by an empty tree in the solver only (the native replay runs the real constructor; the tree is never consulted in these queries); in the two ring-index queries DecompressCode is replaced by its index contract in the solver (IR-level redirect) AND in the native replay build (the real object is linked with that one symbol weakened), so their counterexamples replay against the real FillDecompressBuffer/GetInternalBuffer."


def queries(tier):
    qs = [Query("offset_modifiers", "C04_lzh.cpp", "h_offset_modifiers", {}, unwind=70, desc="GetOffsetModifiers for all 256 prefixes equals the LZHUF position table; 9..14 bits per position, upper part < 64"),
          Query("bitreader_step", "C04_lzh.cpp", "h_bitreader_step", {}, unwind=12, desc="ReadNextBit / ReadNext8Bits from an arbitrary valid BitStreamReader state over <= 4 symbolic bytes: MSB-first bits, zeros past the end, no read outside the buffer")]
    qs.append(Query("repeat_offset", "C04_lzh.cpp", "h_repeat_offset", {}, unwind=30, timeout=600, redirects={TREECTOR: "stub_TreeCtor"},
                    desc="HuffLZ::GetRepeatOffset on the real decoder object at every bit alignment 0..7 over 3 symbolic input bytes: equals the format's position code, < 4096, consumes 9..14 bits (only the Huffman tree constructor is stubbed)"))
    DCODE = "_ZN10OP2Utility7Archive6HuffLZ14DecompressCodeEv"
    qs.append(Query("fill_step", "C04_lzh.cpp", "h_fill_step", {"RING": 1}, unwind=30, timeout=600, redirects={TREECTOR: "stub_TreeCtor", DCODE: "stub_DecompressCode_ring"}, native_redirects={DCODE: "stub_DecompressCode_ring"},
                    desc="HuffLZ::FillDecompressBuffer from ARBITRARY ring indices, DecompressCode replaced by its index contract (appends 1..60 bytes): a code is decoded only while 60 more bytes fit, "
                         "so pending data never wraps to 'empty'; nothing is decoded at end of stream; an empty ring is refilled"))
    qs.append(Query("internal_buffer_step", "C04_lzh.cpp", "h_internal_buffer_step", {"RING": 1}, unwind=30, timeout=600, redirects={TREECTOR: "stub_TreeCtor", DCODE: "stub_DecompressCode_ring"}, native_redirects={DCODE: "stub_DecompressCode_ring"},
                    desc="HuffLZ::GetInternalBuffer at end of stream from ARBITRARY ring indices: pointer at the read index, length = pending bytes up to the window end, inside the window, 0 exactly when empty, read index advances modulo 4096"))
    qs.append(Query("copy_ring", "C04_lzh.cpp", "h_copy_ring", {"RING": 1}, unwind=30, timeout=600, redirects={TREECTOR: "stub_TreeCtor", DCODE: "stub_DecompressCode_ring"}, native_redirects={DCODE: "stub_DecompressCode_ring"},
                    ir2c_opts=["--memcpy-hook", "_ZN10OP2Utility7Archive6HuffLZ17CopyAvailableDataEPcm=stub_memcpy_ring"],
                    desc="HuffLZ::CopyAvailableData from ARBITRARY ring indices and ANY 64-bit request size, its memcpy calls recorded instead of executed: min(requested, pending) bytes, taken from the ring in order from the read index "
                         "(one copy up to the window end, one after the wrap), written contiguously into the caller's buffer and never past the request; read index advances modulo 4096 (native replay compares real bytes)"))
    qs.append(Query("getdata_ring", "C04_lzh.cpp", "h_getdata_ring", {"RING": 1}, unwind=30, timeout=1800, redirects={TREECTOR: "stub_TreeCtor", DCODE: "stub_DecompressCode_ring"}, native_redirects={DCODE: "stub_DecompressCode_ring"},
                    ir2c_opts=["--memcpy-hook", "_ZN10OP2Utility7Archive6HuffLZ17CopyAvailableDataEPcm=stub_memcpy_ring", "--memcpy-hook", "_ZN10OP2Utility7Archive6HuffLZ7GetDataEPcm=stub_memcpy_ring"],
                    desc="HuffLZ::GetData from ARBITRARY ring indices, ANY request size, end-of-stream flag symbolic, at most one further code decoded (index contract): returns min(requested, available), short only at end of stream, "
                         "copies contiguous and in ring order, read index advances modulo 4096"))
    # NOT RUN (kept in harness/C04_lzh.cpp: h_decompress_code, h_decode, h_copy_available): every query that puts the 4 KiB window of the real HuffLZ object
    # under symbolic execution exceeded the budget - DecompressCode from an arbitrary window: symex 130 s, 242 k steps, SAT not finished
    # after 30 min at 8 GB (also with a concrete patterned window, concrete write index, field sensitivity 64 and 8192); whole decoder over
    # 1 input byte with the Huffman layer stubbed: no verdict in 30 min.  These parts of the property are outside the claim.
    return qs
