from engine import Query

ASSUMPTIONS = ["shape family: depth, width, height and palette length concrete per query; palette entries and pixel bytes symbolic; the bitmap is read from a MemoryReader over exactly its bytes",
               "header kernel: every byte of the two headers symbolic (signature fixed), stream length a free 64-bit value; vector growth is modelled without the zero fill (IR-level stub), allocation cap applies"]
OUTSIDE = ["bitmaps wider than 33 pixels at depth 1 / 9 at depths 4 and 8, more than 2 rows", "non-indexed depths (refused by the indexed reader)"]
LEVEL_TEXT = ("Bounded model checking of the real bitmap reader/writer: the pitch law for all 2^31 widths, round trips for every palette and pixel content of each shape, and a header kernel in which "
              "all header fields are free so that the size cross-check (pitch x |height| == size - offset) is decided by the solver, including its behaviour modulo 2^64.")
LEVEL_NOTE = "Shapes: all residues of row bits mod 32 at depth 1 (widths 1..33), widths 1..9 at depths 4/8, heights -2..2, full and partial palettes."

REDIR = {"_ZNSt6vectorIhSaIhEE17_M_default_appendEm": "stub_default_append_u8", "_ZNSt6vectorIN10OP2Utility5ColorESaIS1_EE17_M_default_appendEm": "stub_default_append_color"}


def shapes(tier):
    S = []
    if tier == "quick":
        S = [(1, 1, 1, 0), (1, 31, -2, 0), (1, 33, 2, 1), (1, 7, 0, 0), (4, 3, 2, 0), (4, 8, -1, 5), (8, 1, 2, 3), (8, 5, 0, 0), (8, 4, -2, 256)]
    else:
        S = [(1, w, (1 if w % 2 else -1), 0) for w in range(1, 34)] + [(4, w, (2 if w % 2 else -2), (0 if w % 3 else 7)) for w in range(1, 10)] + \
            [(8, w, (-1 if w % 2 else 2), (0 if w % 3 else 100)) for w in range(1, 10)] + [(8, 3, 0, 0), (1, 7, 0, 2)]   # (width 0 with rows: WritePixels forms &pixels[0] of an empty vector - flagged by UBSan natively, harmless; see DESIGN observations)
    return S


def queries(tier):
    qs = [Query("pitch_law", "C08_bitmap.cpp", "h_pitch", {}, unwind=6, timeout=600, cbmc_opts=["--z3"],
                desc="CalculatePitch for every width >= 0 and depths 1/4/8: least multiple of 4 holding width x depth bits")]
    for bc, w, h, used in shapes(tier):
        d = {"BC": bc, "BW": w, "BH": "(%d)" % h, "USED": used}
        nm = "d%d_w%d_h%s_p%d" % (bc, w, str(h).replace("-", "m"), used)
        size = 54 + (used or (1 << bc)) * 4 + (((w * bc + 7) // 8 + 3) & ~3) * abs(h)
        uw = 54 + (1 << bc) * 4 + (((w * bc + 7) // 8 + 3) & ~3) * abs(h) + 40
        qs.append(Query("read_roundtrip_" + nm, "C08_bitmap.cpp", "h_read_roundtrip", d, unwind=uw, timeout=900, max_alloc=1 << 16,
                        desc="bitmap depth %d width %d height %d palette %s: accepted bytes validate, geometry/pitch/palette rules hold, write+read preserves everything meaningful, padding zero" % (bc, w, h, used or "full")))
        if used == 0:
            qs.append(Query("factory_roundtrip_" + nm, "C08_bitmap.cpp", "h_factory_roundtrip", d, unwind=uw, timeout=900,
                            desc="CreateIndexed(depth %d, %d x %d, symbolic palette and pixels) writes and reads back to an equal object" % (bc, w, h)))
        qs.append(Query("invert_" + nm, "C08_bitmap.cpp", "h_invert", d, unwind=uw, timeout=900,
                        desc="InvertScanLines on a depth %d, %d x %d bitmap: rows reversed, height negated, twice = identity" % (bc, w, h)))
    qs.append(Query("header_kernel", "C08_bitmap.cpp", "h_header_kernel", {}, unwind=60, timeout=900, max_alloc=4096, redirects=REDIR, cbmc_opts=["--sat-solver", "cadical"], mem_gb=16,
                    desc="ReadIndexed over a kernel reader: all header fields free; whenever the pixel container is read the width is non-negative, the height is not INT_MIN and the container has |height| rows of the pitch (unbounded arithmetic)"))
    return qs
