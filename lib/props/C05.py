from engine import Query
from props.C02 import rq

ASSUMPTIONS = ["VOL: reference image of 2 members + 1 unused slot (about 130 bytes) with ONE structural field set to each boundary value of a list, or truncated to each length; payload symbolic; "
               "after a successful open every listing/lookup/stream/extraction call for indices 0..count+1 runs in its own try block (real exception unwinding is translated)",
               "allocation requests above VF_MAX_ALLOC fail with std::bad_alloc"]
OUTSIDE = ["a corrupted index entry whose kind becomes LZH (0x103): extraction then runs the whole LZH decoder (314-symbol tree, 4 KiB window), which gives no verdict within 30 minutes - the decoder layers that can be encoded are decided under C04/C15", "CLM archives with more than 2 members", "multi-field corruptions other than the listed pairs; coverage-guided mutation of large real archives", "archives with more than 2 members"]
LEVEL_TEXT = ("Bounded model checking of the real archive readers over the symbolic file system: CBMC's pointer/bounds checks on every access of the translated code (each heap block, stack slot and table is its own object), "
              "front-end UB traps, termination within the unwinding bound, and the extent/usability post-conditions, for every payload of each corrupted or truncated shape.")
LEVEL_NOTE = "Exception mode 'full': throw/catch/unwinding are translated, so behaviour after a failed call is part of the query."

BASE = dict(CNT=2, UNUSED=1, RSZ0=2, RSZ1=5)


def hq(name, defs, desc, **kw):
    return rq(name, "h_hostile", defs, desc, exc="full", max_alloc=kw.pop("max_alloc", 4096), expect_witness=True, **kw)


def queries(tier):
    qs = []
    B = 0x80000000
    # valid values of the structural fields of BASE: header 92 (0x5c), vols padded 12, actual 7 ("a\0Bc.x\0"), voli 42
    fields = {
        0: ("VOL header length", [B | 0, B | 91, B | 93, B | 0x7FFFFFFF, 92]),
        1: ("volh length", [B | 1, 0, 0xFFFFFFFF]),
        2: ("vols padded length", [B | 0, B | 8, B | 11, B | 16, B | 0x7FFFFFFF, 12]),
        3: ("vols actual length", [0, 6, 8, 9, 13, 0x7FFFFFFF, 0x80000000, 0xFFFFFFFF]),
        4: ("voli length", [B | 0, B | 13, B | 14, B | 15, B | 41, B | 43, B | 56, B | 0x7FFFFFFF, 42]),
        5: ("entry 0 name offset", [1, 7, 0xFFFFFFFF]),
        6: ("entry 0 block offset", [0, 99, 101, 120, 0x7FFFFFFF, 0x80000000, 0xFFFFFFF8, 0xFFFFFFFF]),
        7: ("entry 0 size", [0, 3, 0x7FFFFFFF, 0x80000000, 0xFFFFFFFF]),
        8: ("entry 0 kind", [0, 0x101, 0xFFFF]),        # 0x103 (LZH) sends ExtractFile into the full LZH decoder: no verdict in 30 min at unwind 1900, see OUTSIDE
        9: ("block 0 tag", [0]),
        10: ("block 0 length", [B | 0, B | 3, B | 40, B | 0x7FFFFFFF, 2]),
        11: ("VOL tag", [0]), 12: ("volh tag", [0]), 13: ("vols tag", [0]), 14: ("voli tag", [0]),
        15: ("entry 1 name offset", [0, 0xFFFFFFFF]),
        16: ("entry 1 block offset", [100, 113, 0xFFFFFFFF]),
    }
    for f, (fn, vals) in fields.items():
        if tier == "quick":
            vals = vals[:4] if f in (0, 2, 3, 4, 6) else vals[:2]
        for v in vals:
            qs.append(hq("vol_field%02d_%08x" % (f, v), dict(BASE, FIELD=f, VAL=v), "VOL image with %s = 0x%x, payload symbolic: open, then every call for indices 0..count+1" % (fn, v)))
    n = 128
    lens = range(0, n) if tier == "thorough" else [0, 7, 8, 31, 32, 43, 44, 57, 58, 99, 100, 107, 108, 110, 112, 120, 127]
    for t in lens:
        qs.append(hq("vol_trunc%03d" % t, dict(BASE, TRUNC=t), "VOL image truncated to %d of %d bytes" % (t, n)))
    qs.append(hq("vol_valid", dict(BASE), "the unmodified reference image under the same call sequence (control)"))
    # ---- CLM reader on hostile images (2 members, 97 bytes)
    cf = {0: ("version string", [0]), 1: ("unknown field", [0x01000000]), 2: ("packed file count", [0, 1, 3, 0x7FFFFFFF, 0xFFFFFFFF]),
          3: ("entry 0 data offset", [0, 96, 97, 98, 0x7FFFFFFF, 0xFFFFFFFF]), 4: ("entry 0 data length", [0, 5, 6, 0x7FFFFFFF, 0xFFFFFFFF]),
          5: ("entry 1 data offset", [94, 97, 98, 0xFFFFFFFC, 0xFFFFFFFF]), 6: ("entry 1 data length", [0, 5, 0xFFFFFFFF])}
    for f, (fn, vals) in cf.items():
        if tier == "quick":
            vals = vals[:4]
        for v in vals:
            qs.append(Query("clm_field%d_%08x" % (f, v), "C17_lookup.cpp", "h_clm_hostile", {"CFIELD": f, "CVAL": "%du" % v}, unwind=200, vfs_n=6, vfs_cap=160, timeout=600, exc="full", max_alloc=4096,
                            desc="CLM image with %s = 0x%x, payload symbolic: open, then every per-member call for indices 0..3" % (fn, v)))
    for t in ([0, 59, 60, 75, 91, 92, 94, 96] if tier == "quick" else range(0, 97)):
        qs.append(Query("clm_trunc%03d" % t, "C17_lookup.cpp", "h_clm_hostile", {"CTRUNC": t}, unwind=200, vfs_n=6, vfs_cap=160, timeout=600, exc="full", max_alloc=4096,
                        desc="CLM image truncated to %d of 97 bytes" % t))
    # ---- the LZH extraction path reads member bytes through the bit reader (C04's induction) and WAV intake reads the format chunk (C03's 40-byte layout)
    from props import C04, C03
    qs += [q for q in C04.queries(tier) if q.name == "bitreader_step"]
    qs += [q for q in C03.queries(tier) if q.name == "roundtrip_one_fmt40"]
    # ---- WAV intake of CLM creation
    qs.append(Query("wav_find_chunk_kernel", "C03_clm.cpp", "h_find_chunk", {}, unwind=120, timeout=600,
                    desc="ClmFile::FindChunk over a reader of symbolic length <= 64 whose chunk headers are arbitrary: ends within length/8 + 1 header reads, with the chunk inside the file or an error"))
    # (files long enough to hold format AND data chunk with symbolic chunk headers exceed the solver budget: 6.4 M symex steps at 44 bytes;
    #  the chunk search itself is covered for every header content by the kernel above)
    for flen, first in ((28, 1),) if tier == "quick" else ((12, 0), (28, 1), (36, 1)):
        d = {"FLEN": flen, "NW": 1}
        if first:
            d["FIRSTFMT"] = None
        qs.append(Query("wav_intake_len%d_%s" % (flen, "fmtfirst" if first else "free"), "C03_clm.cpp", "h_wav_intake", d, unwind=flen + 40, vfs_n=5, vfs_cap=128, timeout=900, expect_witness=False,
                        desc="CLM creation from a %d-byte file that is arbitrary after the RIFF/WAVE magic%s: an error or an archive, memory-safe, terminating" % (flen, " and a leading 'fmt ' tag" if first else "")))
    return qs
