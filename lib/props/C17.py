from engine import Query

ASSUMPTIONS = ["archives are reference-encoder images in the model file system (VOL: members a.txt, B.dat + one unused slot; CLM: members a, song); payload bytes symbolic",
               "query names are enumerated (exact, case variants, ./ prefix, near misses); directory = flat model directory given as '' or './'",
               "directory listing order is the model's (order of the files in the vfs); std::filesystem is modelled by stubs/filesystem"]
OUTSIDE = ["pattern listings (GetAllFilenames: std::regex and locale facets live in libstdc++.so)", "sub-directories, real directory iteration order",
           "symbolic query names (string-valued path code does not finish, see C19)"]
LEVEL_TEXT = ("Bounded model checking of the real ArchiveFile/VolFile/ClmFile/ResourceManager code over the symbolic file system with symbolic payloads; lookup names and layouts are enumerated, "
              "out-of-range indices are a free 64-bit value.")
LEVEL_NOTE = "Lookups by name run the repository's XFile::PathsAreEqual over the std::filesystem model."


def lq(name, entry, defs, desc=None, **kw):
    d = {k: ('"%s"' % v if isinstance(v, str) else v) for k, v in defs.items()}
    return Query(name, "C17_lookup.cpp", entry, d, unwind=kw.pop("unwind", 200), vfs_n=6, vfs_cap=160, timeout=kw.pop("timeout", 900), desc=desc, **kw)


def queries(tier):
    qs = []
    look = [("a.txt", 0), ("A.TXT", 0), ("./a.TxT", 0), ("b.dat", 1), ("./B.DAT", 1), ("a.tx", -1), ("a.txt.", -1), ("xa.txt", -1), (".//a.txt", 0)]
    if tier == "quick":
        look = look[:3] + look[4:7]
    for qn, ex in look:
        qs.append(lq("lookup_%s" % qn.replace("/", "_").replace(".", "-"), "h_lookup", {"QUERY": qn, "EXPECT": ex}, exc=("full" if ex < 0 else "cut"), desc="VOL lookup of '%s' (expected member %d): Contains == GetIndex-succeeds, index names the member, i-th name -> i; CLM lookups" % (qn, ex)))
    for nm, v in (("2", "2ull"), ("3", "3ull"), ("2p32", "0x100000000ull"), ("max", "0xFFFFFFFFFFFFFFFFull")):
        qs.append(Query("out_of_range_index_" + nm, "C17_lookup.cpp", "h_out_of_range", {"OOR": v}, unwind=200, vfs_n=6, vfs_cap=160, timeout=600, exc="full",
                        desc="every per-member call of VolFile and ClmFile with index %s (>= count) is refused; a refused extraction creates nothing" % v))
    res = [("", "a.txt", 1, 1), ("./", "a.txt", 1, 1), ("", "A.TXT", 2, 1), ("", "b.DAT", 3, 1), ("", "SONG", 4, 1), ("", "c.bin", 5, 1), ("", "A", 6, 1), ("", "zz", 0, 1),
           ("", "b.dat", 0, 0), ("", "a.txt", 1, 0), ("./", "./song", 4, 1)]
    if tier == "quick":
        res = res[:5] + res[7:10]
    for root, rq, want, arch in res:
        qs.append(lq("resource_root%s_%s_arch%d" % ("dot" if root else "empty", rq.replace("/", "_").replace(".", "-"), arch), "h_resource", {"ROOT": root, "RQ": rq, "RWANT": want, "ARCH": arch},
                     "ResourceManager('%s').GetResourceStream('%s', archives=%d): expected source %d (0 none, 1 loose, 2-3 VOL member, 4/6 CLM member, 5 loose); containing archive really contains the name" % (root, rq, arch, want)))
    qs.append(lq("resource_rooted_path", "h_resource_rooted", {"ROOT": ""}, "a rooted path is refused"))
    qs.append(lq("type_listing", "h_type_listing", {"ROOT": ""}, "GetAllFilenamesOfType: loose files, then archive members not already listed ignoring case; archives off: loose only"))
    qs.append(lq("type_listing_two_archives", "h_type_listing_two", {"ROOT": ""}, "GetAllFilenamesOfType with two volumes holding a.txt / A.TXT and no loose file: listed once"))
    return qs
