from engine import Query
from props import C14, C03

ASSUMPTIONS = ["VOL: member sizes are free 64-bit values of files in the model file system (contents are never read): VolFile::PrepareHeader is called directly; natively the replay uses sparse files",
               "CLM: data lengths are free 32-bit values handed to ClmFile::PrepareIndex; names of 1 and 8 characters (9 characters: refusal query of C03)",
               "size prefixes: a counting Writer, container size free up to 2^40 (queries shared with C14)", "PRT frames: layer list length free in 0..130 against a free 7-bit count; counting Writer"]
OUTSIDE = ["that EVERY path of CreateArchive refuses before creating the destination is shown for header preparation (which precedes the creation of the output in CreateArchive) and for one concrete over-long member through the public entry point; "
           "other orders of the calls inside CreateArchive are not explored with symbolic sizes (copying 2^31 bytes is out of reach)"]
LEVEL_TEXT = ("Bounded model checking with the quantity itself symbolic over its full range: the solver decides, for every 64-bit member size / 32-bit data length / container size / layer count, that the writer either refuses "
              "or emits exactly the value (compared with a reference layout computed in unbounded arithmetic).")
LEVEL_NOTE = "Limits: block length 2^31-1, block offset 2^32-1, CLM offset+length 2^32-1, prefix type maxima, 7-bit layer count."


def queries(tier):
    qs = []
    for nm in (1, 2, 3):
        qs.append(Query("vol_prepare_%dmembers" % nm, "C20_limits.cpp", "h_vol_prepare", {"NM": nm}, unwind=40, vfs_n=4, vfs_cap=16, timeout=900,
                        desc="VolFile::PrepareHeader for %d member(s) of free 64-bit sizes: refused iff a size exceeds 2^31-1 or a block offset exceeds 2^32-1, otherwise sizes and offsets equal the reference layout; no file touched" % nm))
    for nm, big in (("2p31", "0x80000000ull"), ("2p32m1", "0xFFFFFFFFull"), ("2p32", "0x100000000ull")):
        qs.append(Query("vol_create_member_%s" % nm, "C20_limits.cpp", "h_vol_create_big", {"BIGSZ": big}, unwind=200, vfs_n=4, vfs_cap=16, timeout=300,
                        desc="VolFile::CreateArchive with a member of exactly %s bytes (sparse): refused, destination not created" % big))
    qs.append(Query("clm_prepare_index", "C20_limits.cpp", "h_clm_index", {}, unwind=40, timeout=600,
                    desc="ClmFile::PrepareIndex for 3 members with free 32-bit data lengths: refused iff an offset+length exceeds 2^32-1, otherwise offsets equal the reference layout"))
    qs.append(Query("map_container_size", "C20_limits.cpp", "h_map_container_size", {}, unwind=10, desc="Map::WriteContainerSize for every size_t: refused iff > 2^32-1, otherwise the exact 32-bit value is written"))
    qs.append(Query("art_frame_layers", "C20_limits.cpp", "h_art_frame", {}, unwind=20, timeout=600,
                    desc="ArtFile::WriteFrame for every layer-list length 0..130 against every 7-bit count and both optional flags: refused iff they differ"))
    qs += [q for q in C14.queries(tier) if q.name.startswith("prefix_")]
    qs += [q for q in C03.queries(tier) if q.name in ("refuse_name_9_chars",)]
    return qs
