from engine import Query

ASSUMPTIONS = ["parents are in an arbitrary valid state (any length <= N, any position, any outer slice extents) over N symbolic bytes",
               "files live in the vfs model (stubs/fstream); interleaving and backend harnesses use in-bounds operations only (out-of-bounds behaviour is C12)"]
OUTSIDE = ["sources longer than N bytes (6 quick / 8 thorough)", "nesting deeper than 3", "backend-equivalence sequences longer than STEPS (3 quick / 4 thorough); interleavings of any length follow from the one-step induction over stream positions",
           "archive member streams are covered with the archive harnesses (C05/C17)"]
LEVEL_TEXT = ("Bounded model checking of the real slice code with free 64-bit slice parameters (so wrap-around near 2^64 is decided, not sampled), "
              "arbitrary parent state, nesting depth up to 3, and symbolic interleavings / operation sequences for independence and backend equivalence.")
LEVEL_NOTE = "Bounds: N bytes, depth <= 3, STEPS operations; file behaviour is that of the fstream/vfs model (validated by native replay of every witness trace)."


def queries(tier):
    n = 6 if tier == "quick" else 8
    steps = 3 if tier == "quick" else 4
    qs = [Query("mem_slice_N%d" % n, "C13_slices.cpp", "h_mem_slice", {"N": n}, unwind=n + 4,
                desc="MemoryReader::Slice(s,n) and Slice(n) with free 64-bit s,n from an arbitrary parent state: created iff contained, exposes exactly bytes s..s+n, parent untouched on failure")]
    for d in (1, 2, 3):
        qs.append(Query("file_slice_depth%d_N%d" % (d, n), "C13_slices.cpp", "h_file_slice", {"N": n, "DEPTH": d}, unwind=n + 4, vfs_cap=16, timeout=600,
                        desc="Slice(s,n)/Slice(n) with free 64-bit arguments on a %s over a %d-byte symbolic file" % (["FileReader", "slice of a file", "slice of a slice of a file"][d - 1], n)))
    for w in range(4):
        qs.append(Query("interleave_W%d_N%d" % (w, n), "C13_slices.cpp", "h_interleave", {"N": n, "W": w}, unwind=n + 4, vfs_cap=16, timeout=900,
                        desc="inductive step: file reader, slice, copy of the slice and nested slice over one file at arbitrary positions; one arbitrary in-bounds operation on stream %d; all four streams keep their own cursor" % w))
    qs.append(Query("backends_S%d_N%d" % (steps, n), "C13_slices.cpp", "h_backends", {"N": n, "STEPS": steps}, unwind=max(n, steps) + 6, vfs_cap=16, timeout=900,
                    desc="the same symbolic sequence of %d in-bounds operations on memory, slice-of-memory, file and slice-of-file readers observes identical bytes/positions/lengths" % steps))
    return qs
