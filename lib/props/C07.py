from engine import Query
from props.C06 import shape, sname, maxlen, shapes

ASSUMPTIONS = ["prefix family: valid image of a concrete shape with symbolic payload, stream length symbolic in 0..total",
               "field family: one structural 32-bit field replaced by each boundary value of a list (0, valid+1, 9, 31, 32, 2^31-1, 2^31, 2^32-1, ...), allocation requests above VF_MAX_ALLOC fail with std::bad_alloc (an allocator may do that)",
               "reader kernel: the stream is a reader of arbitrary content (every byte of the file symbolic) with the allocation cap low enough that every table holds at most a few entries",
               "saved games: unit-section kernel reader with arbitrary content; whole ReadSavedGame over a sparse reader whose window holds the embedded map and the unit header (object counts 0)"]
OUTSIDE = ["saved games with non-zero object counts in the unit section (512-byte objects exceed the allocation cap)", "allocations above VF_MAX_ALLOC that succeed (maps with more than a few dozen tiles / table entries)", "two or more fields corrupted at once (thorough tier adds pairs for the header)",
           "byte strings that are not within one structural field of a shape in the family"]
LEVEL_TEXT = ("Bounded model checking of the real readers over MemoryReader: memory safety (CBMC pointer checks on every access of the translated code), front-end UB traps "
              "(shift, signed overflow, bounds), termination within the unwinding bound, and the consistency post-conditions, for every value of the free field / every prefix length / every payload.")
LEVEL_NOTE = "Per-query bounds in evidence; an accepted map must satisfy tiles == width*height in 64-bit arithmetic, width a power of two, group index counts == width*height."


def queries(tier):
    qs = []
    for d in shapes(tier)[:4 if tier == "quick" else 99]:
        qs.append(Query("prefix_" + sname(d), "C07_mapsafe.cpp", "h_prefix", d, unwind=maxlen(d) + 24, timeout=900,
                        desc="every prefix (symbolic stream length) of every map of shape %s: accepted only if nothing consumed is cut off" % sname(d)))
    fshape = shape(1, 1, nts=1, tsl0=1, nmap=1, nter=0, ngrp=1, gw=1, gh=1, gnl=1, trail=12)
    names = ["lgWidth", "height", "tilesetCount", "tileset name length", "mapping count", "terrain count", "group count", "group width", "group height", "group name length",
             "version tag", "second version tag", "saved-game flag"]
    valid = [1, 1, 1, 1, 1, 0, 1, 1, 1, 1, 0x1011, 0x1011, 0]
    for f, fn in enumerate(names):
        vals = {0, 1, 2, valid[f] + 1, 8, 9, 31, 32, 33, 0x7FFFFFFF, 0x80000000, 0xFFFFFFFF, 0x100F, 0x1010}
        if tier == "quick":
            vals = {0, valid[f] + 1, 9, 31, 32, 0x7FFFFFFF, 0x80000000, 0xFFFFFFFF} if f < 10 else {0, 0x100F, 0x1010, 0xFFFFFFFF}
        vals.discard(valid[f])
        # small deviations of a count re-align the rest of the parse onto symbolic payload bytes (structural fields become symbolic and the
        # query no longer finishes); those are covered by the prefix family and the kernels, here only values that fail fast or keep the layout
        if f in (0, 1, 4, 7, 8):
            vals = {v for v in vals if v >= (31 if f == 1 else 9)}
        if f == 6:
            vals = {v for v in vals if v == 0 or v >= 0x7FFFFFFF} | {2}
        for v in sorted(vals):
            fsh = dict(fshape, TRAIL=0) if f == 6 else fshape      # extra groups must hit the end of the stream, not symbolic trailing bytes
            qs.append(Query("field_%02d_%s_%x" % (f, fn.replace(" ", "_"), v), "C07_mapsafe.cpp", "h_field", dict(fsh, FIELD=f, VAL="%du" % v), unwind=maxlen(fshape) + 40, max_alloc=96, timeout=300,
                            expect_witness=False,
                            desc="field '%s' of a small valid map set to 0x%x (payload symbolic, allocation cap 96 bytes): ordinary error or a consistent map, no UB, no out-of-bounds access" % (fn, v)))
    qs.append(Query("reader_kernel", "C07_mapsafe.cpp", "h_kernel", {}, unwind=40, max_alloc=64, timeout=900,
                    desc="ReadMap over a kernel reader: all five header fields free 32-bit values; whenever the tile array is read, log-width < 32 and its byte count equals width x height x 4 in 64-bit arithmetic (allocation cap 64 bytes)"))
    qs.append(Query("group_kernel", "C07_mapsafe.cpp", "h_group_kernel", {}, unwind=70, max_alloc=64, timeout=600, cbmc_opts=["--z3"],
                    desc="ReadTileGroup over a kernel reader: width and height free 32-bit values; whenever the index array is read its byte count equals width x height x 4 in 64-bit arithmetic"))
    # Saved games.  The 254 KB SavedGameUnits object makes the SAT back ends run out of memory (every field-sensitivity setting); the z3 back end
    # (arrays handled natively) decides both queries: measured 77 s / 0.5 GB and 307 s / 4.5 GB.
    U = {"_ZNSt6vectorIN10OP2Utility11ObjectType1ESaIS1_EE17_M_default_appendEm.%d" % i: 2 for i in range(4)}
    qs.append(Query("savedgame_units_kernel", "C07_mapsafe.cpp", "h_units_kernel", {}, unwind=70, max_alloc=64, timeout=900, unwindset=U, cbmc_opts=["--z3"],
                    desc="ReadSavedGameUnits over a reader of arbitrary content: every read request (unit header fields all symbolic) fits the object it is read into; allocation cap 64 bytes"))
    sg = shape(1, 1, nts=1, tsl0=1, nmap=1, nter=0, ngrp=0)
    qs.append(Query("savedgame_vs_map_" + sname(sg), "C07_mapsafe.cpp", "h_savedgame", sg, unwind=maxlen(sg) + 40, max_alloc=96, timeout=1800, unwindset=U, cbmc_opts=["--z3"],
                    desc="ReadSavedGame over a sparse reader (embedded map of shape %s at 0x1E025, unit header symbolic with zero object counts, everything else and the stream length arbitrary): "
                         "error, or the same dimensions/tiles/clip rectangle/tileset sources/mappings/terrain types as a map file holding that portion; a stream shorter than its content is refused" % sname(sg)))
    return qs
