from engine import Query

ASSUMPTIONS = ["coordinate kernel: log-width 5..10 and height 1..256 symbolic, both coordinates symbolic and in range (the map object is constructed directly; no tile storage is needed)",
               "accessor harnesses: map of concrete dimensions with every tile word and every mapping entry symbolic, coordinate symbolic and in range; the tile's mapping index is assumed < table size for the mapping lookups"]
OUTSIDE = ["accessor checks on maps larger than 64x2 / 32x4 tiles", "mapping tables with more than 16 entries (the index arithmetic is the 11-bit field extraction checked for all 2^32 words)"]
LEVEL_TEXT = ("Bounded model checking: injectivity and range of the coordinate-to-index map are decided for all widths 2^5..2^10, all heights 1..256 and all coordinate pairs at once "
              "(surjectivity follows by counting); accessor faithfulness is decided for all 2^32 tile words, all 2^32 cell-type arguments and all coordinates of the shape.")
LEVEL_NOTE = "Tile words are compared against an independent bit-level description of the serialised word (bits 0-4 cell type, 5-15 mapping index, 28 lava-possible)."


def queries(tier):
    qs = [Query("tile_index_kernel", "C16_tiles.cpp", "h_index", {}, unwind=6, timeout=900, cbmc_opts=["--z3"],
                desc="GetTileIndex for all widths 2^5..2^10, heights 1..256 and all pairs of in-range coordinates: inside the array, injective, 32-column block order")]
    shapes = [(5, 2, 4)] if tier == "quick" else [(5, 2, 4), (6, 1, 4), (6, 2, 16), (5, 4, 8)]
    for lg, h, nm in shapes:
        for a, an in enumerate(["getters", "SetCellType", "SetLavaPossible"]):
            qs.append(Query("access_%s_%dx%d" % (an, 1 << lg, h), "C16_tiles.cpp", "h_access", {"LGW": lg, "HT": h, "NMAPS": nm, "ACC": a}, unwind=(1 << lg) * h * 4 + 20, timeout=900,
                            desc="%s on a %dx%d map of symbolic tile words at a symbolic in-range coordinate" % (an, 1 << lg, h)))
    return qs
