from engine import Query
from props.C10 import shape as artshape

ASSUMPTIONS = ["bitmap: a valid 1-bit 9x2 bitmap (70 bytes, payload symbolic) with one header field set to each boundary value of a list, or truncated to each length; then Validate, WriteIndexed, SwapRedAndBlue, InvertScanLines on the accepted object",
               "tileset: a valid 32x32 custom tileset (2144 bytes, palette and pixels symbolic) with one header field corrupted or truncated; then validation and both save formats",
               "PRT: valid shapes (with and without a palette) with one field corrupted or truncated; then Write and VerifyImageIndexInBounds for every index 0..count+1",
               "allocation requests above VF_MAX_ALLOC fail with std::bad_alloc; real exception unwinding is translated"]
OUTSIDE = ["SpriteLoader::ExtractImage beyond its index verification (queries exceed 30 min / 12 GB)", "solver-chosen multi-field combinations other than the header kernel of C08 (which frees all bitmap header fields at once)", "coverage-guided mutations", "larger pictures / more images"]
LEVEL_TEXT = ("Bounded model checking of the real loaders and of every follow-up operation on what they return: CBMC's memory-safety checks on every access, front-end UB traps (abs(INT_MIN), shifts, signed overflow), "
              "termination within the unwinding bound, and refusal of every proper prefix, for all payloads of each corrupted or truncated shape.")
LEVEL_NOTE = "Exception mode 'full'."


def q(name, entry, defs, desc, **kw):
    return Query(name, "C11_loaders.cpp", entry, defs, unwind=kw.pop("unwind", 200), timeout=kw.pop("timeout", 900), exc="full", max_alloc=kw.pop("max_alloc", 1 << 16), desc=desc, **kw)


def queries(tier):
    qs = []
    B = {"BC": 1, "BW": 9, "BH": 2, "USED": 0}
    bf = {0: ("signature", [0]), 1: ("file size", [0, 53, 69, 71, 0x7FFFFFFF, 0xFFFFFFFF]), 2: ("pixel offset", [0, 61, 63, 70, 71, 0xFFFFFFFF]), 3: ("header size", [0, 108, 124]),
          4: ("width", [0, 33, 0x7FFFFFFF, 0x80000000, 0xFFFFFFFF, 0xFFFFFFF7]), 5: ("height", [0, 1, 0x7FFFFFFF, 0x80000000, 0xFFFFFFFE, 0xFFFFFFFF]), 6: ("planes", [0, 2]),
          7: ("bit count", [0, 4, 8, 16, 32, 3]), 8: ("compression", [1, 3]), 9: ("image size", [0xFFFFFFFF]), 10: ("used colours", [1, 2, 3, 0xFFFFFFFF]), 11: ("important colours", [2, 3])}
    for f, (fn, vals) in bf.items():
        if tier == "quick":
            vals = vals[:3]
        for v in vals:
            qs.append(q("bmp_field%02d_%08x" % (f, v), "h_bmp_hostile", dict(B, FIELD=f, VAL="%du" % v), "bitmap with %s = 0x%x: error or an object on which every public operation is safe" % (fn, v), unwind=1100))
    for nm, sh in (("valid_9x2", B), ("valid_7x0", {"BC": 1, "BW": 7, "BH": 0, "USED": 0}), ("valid_5xm1", {"BC": 4, "BW": 5, "BH": "(-1)", "USED": 3})):
        qs.append(q("bmp_" + nm, "h_bmp_hostile", dict(sh), "unmodified bitmap (%s): every public operation on the accepted object is safe (control; includes a zero-height picture)" % nm, unwind=1100))
    for t in ([0, 1, 13, 14, 53, 54, 61, 62, 66, 69] if tier == "quick" else range(0, 70)):
        qs.append(q("bmp_trunc%02d" % t, "h_bmp_hostile", dict(B, TRUNC=t), "bitmap truncated to %d of 70 bytes: refused" % t))
    tf = {0: ("PBMP length", [0, 0xFFFFFFFF]), 1: ("head length", [0x13]), 2: ("tag count", [3]), 3: ("pixel width", [31, 0]), 4: ("pixel height", [0, 64, 33, 0x7FFFFFE0, 0x80000000, 0xFFFFFFE0]),
          5: ("bit depth", [4, 0x10008, 1]), 7: ("PPAL length", [1047]), 10: ("palette data length", [1023]), 11: ("pixel data length", [1023, 2048, 0xFFFFFFFF]), 12: ("signature", [0x4D42])}
    for f, (fn, vals) in tf.items():
        if tier == "quick":
            vals = [vals[0]] + vals[-3:] if f == 4 else vals[:1]
        for v in vals:
            qs.append(q("tileset_field%02d_%08x" % (f, v), "h_tileset_hostile", {"FIELD": f, "VAL": "%du" % v}, "custom tileset with %s = 0x%x" % (fn, v), unwind=2300, timeout=1500))
    for t in ([0, 7, 35, 1087, 1095, 2143] if tier == "quick" else [0, 3, 7, 8, 35, 36, 55, 63, 64, 1087, 1088, 1095, 1096, 2000, 2143]):
        qs.append(q("tileset_trunc%04d" % t, "h_tileset_hostile", {"TRUNC": t}, "custom tileset truncated to %d of 2144 bytes: refused" % t, unwind=2300, timeout=1500))
    A0 = artshape(0, 0, 1, 1, 1, 1, 1)
    af = {0: ("palette count", [1, 0xFFFFFFFF]), 4: ("image count", [1, 0x0CCCCCCD, 0xFFFFFFFF]), 10: ("animation count", [0, 2, 0xFFFFFFFF]), 11: ("frame total", [0, 2]), 12: ("layer total", [0, 2]),
          # (frame counts / layer bytes that merely shift the rest of the parse onto symbolic payload do not finish; only values that fail fast)
          13: ("animation frame count", [0xFFFFFFFF, 0x7FFFFFFF]), 14: ("frame layer byte", [0x7F, 0xFF]), 15: ("unknown container count", [0, 2, 0x10000000, 0xFFFFFFFF])}
    for f, (fn, vals) in af.items():
        if tier == "quick":
            vals = vals[:2]
        for v in vals:
            qs.append(q("art_field%02d_%08x" % (f, v), "h_art_hostile", dict(A0, FIELD=f, VAL="%du" % v), "PRT (no palette, 1 animation) with %s = 0x%x" % (fn, v), vfs_n=2, vfs_cap=64))
    qs.append(q("art_valid_control", "h_art_hostile", dict(A0), "the unmodified PRT shape under the same call sequence (control)", vfs_n=2, vfs_cap=64))
    alen = 8 + 4 + 16 + (36 + 12 + 4 + 16)
    for t in ([0, 7, 11, 27, 63, 64, alen - 1] if tier == "quick" else range(0, alen)):
        qs.append(q("art_trunc%03d" % t, "h_art_hostile", dict(A0, TRUNC=t), "PRT truncated to %d of %d bytes: refused" % (t, alen), vfs_n=2, vfs_cap=64))
    # NOT RUN (h_art_hostile with -DEXTRACT): SpriteLoader::ExtractImage over a PRT with a palette and a pixel file needs more than 30 minutes /
    # 12 GB per query (1 KiB palette copies + BitmapFile creation + file model); the extraction path beyond index verification is outside the claim.
    return qs
