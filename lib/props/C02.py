from engine import Query
from props import C01

ASSUMPTIONS = C01.ASSUMPTIONS + ["reference images: member count 0..2, 0..2 unused trailing index slots (name offset 0xFFFFFFFF), compression kind per member in {Uncompressed, RLE, LZ, LZH}; names and payload lengths concrete per query, payload bytes symbolic"]
OUTSIDE = C01.OUTSIDE + ["index sections whose length is not a whole number of 14-byte entries (treated as hostile input in C05)", "decoding LZH payloads (C04)"]
LEVEL_TEXT = ("Bounded model checking with a format oracle: the bytes the real writer leaves in the model file system are parsed by an independent decoder that asserts every rule of the VOL description "
              "(tiling of the header, name table, index entries, aligned contiguous zero-padded blocks ending at EOF, strictly increasing names); conversely images from an independent encoder must be read back "
              "with the same names, sizes, kinds and payloads. Each query covers all payload bytes of its shape.")
LEVEL_NOTE = "Oracle and encoder are in harness/vol_common.h (plain loops over byte arrays, no library code)."


def rq(name, entry, defs, desc, **kw):
    d = {k: ('"%s"' % v if isinstance(v, str) else v) for k, v in defs.items()}
    return Query(name, "C02_vol.cpp", entry, d, unwind=kw.pop("unwind", 200), vfs_n=2, vfs_cap=kw.pop("vfs_cap", 160), timeout=kw.pop("timeout", 900), desc=desc, **kw)


def ref_shapes(tier):
    S = [dict(CNT=0, UNUSED=0), dict(CNT=0, UNUSED=2), dict(CNT=1, UNUSED=0, RSZ0=3), dict(CNT=1, UNUSED=1, RSZ0=0, KIND0=0x103),
         dict(CNT=2, UNUSED=0, KIND1=0x103), dict(CNT=2, UNUSED=2, RSZ0=4, RSZ1=1, KIND0=0x101),
         dict(CNT=2, UNUSED=0, RSZ0=64, STORED0=7, KIND0=0x103, RSZ1=3), dict(CNT=2, UNUSED=1, RSZ0=2, RSZ1=900, STORED1=5, KIND1=0x103)]
    if tier == "thorough":
        S += [dict(CNT=2, UNUSED=1, RNAME0="AA", RNAME1="ab", RSZ0=7, RSZ1=6, KIND0=0x102, KIND1=0x103), dict(CNT=1, UNUSED=2, RNAME0="longer.name", RSZ0=9),
              dict(CNT=2, UNUSED=0, RNAME0="x.1", RNAME1="x.10", RSZ0=8, RSZ1=8)]
    return S


def queries(tier):
    qs = []
    for s in C01.pack_shapes(tier):
        qs.append(C01.q("format_" + C01.sname(s), "h_pack_format", C01.sdefs(s),
                        "library-written VOL of %d file(s) %s sizes %s: the raw bytes satisfy the independent format description" % (s[0], s[1][:s[0]], s[2][:s[0]])))
    for d in ref_shapes(tier):
        nm = "ref_c%d_u%d_%s" % (d["CNT"], d["UNUSED"], "_".join("%s%s" % (k[0] + k[-1], str(v).replace(".", "")) for k, v in sorted(d.items()) if k not in ("CNT", "UNUSED")))
        qs.append(rq(nm, "h_read_reference", d, "reference-encoder image %s: opened with the same names, sizes, kinds, stored payloads" % d))
    return qs
