from engine import Query

ASSUMPTIONS = ["strings are built from arbitrary bytes 0..255 (chars are signed; tolower/toupper follow glibc's C locale: identity outside A-Z/a-z, a negative char other than -1 maps to its unsigned value) with symbolic lengths 0..L",
               "case mapping as modelled in engine/rt.c"]
OUTSIDE = ["strings longer than L (3 quick, 4 thorough); std::sort itself",
           "ALL path laws of the property (PathsAreEqual equivalence, Append/GetFilename, GetDirectory+re-join, ChangeFileExtension/ExtensionMatches): std::filesystem::path is implemented inside libstdc++.so (no IR); "
           "running XFile.cpp over our path model was tried and does not finish (SAT out of memory at 16 GB for names of 1-3 characters)"]
LEVEL_TEXT = ("Bounded model checking: the strict-weak-ordering laws are decided for ALL triples of byte strings up to the length bound (a 2^72-element space at L=3), the "
              "power-of-two test for all 2^32 values and the logarithm for all 32 powers, by the solver rather than by enumeration. The path-equality/join/extension laws are NOT covered (see outside_the_claim).")
LEVEL_NOTE = "String length bound L; C-locale case mapping; path laws not covered (std::filesystem is not available as IR and the modelled variant exceeds the solver budget)."


def queries(tier):
    l = 3 if tier == "quick" else 4
    qs = [Query("order_laws_L%d" % l, "C19_laws.cpp", "h_order", {"L": l}, unwind=l + 6, timeout=900,
                desc="IsEqualCaseInsensitive on all triples of byte strings of length 0..%d: irreflexive, asymmetric, transitive, incomparability transitive and == IsEqual, equals the reference ordering" % l),
          Query("sorted_dups_L%d" % l, "C19_laws.cpp", "h_dups", {"L": l}, unwind=l + 8, timeout=900,
                desc="VerifySortedContainerHasNoDuplicateNames on every sorted triple of byte strings of length 0..%d throws iff two names are equal ignoring case" % l),
          Query("is_power_of_2", "C19_laws.cpp", "h_pow2", {}, unwind=34, desc="IsPowerOf2(x) == (popcount(x) == 1) for all 2^32 x"),
          Query("log2_of_power_of_2", "C19_laws.cpp", "h_log2", {}, unwind=8, desc="Log2OfPowerOf2(1 << k) == k for all k in 0..31")]
    # The path-law harnesses (h_paths/h_join/h_ext in C19_laws.cpp: the repository's XFile.cpp over the filesystem model) are NOT run:
    # measured 2026-10-03, even with concrete name lengths 1-3 each query needs > 300 k symex steps and the SAT back end runs out of
    # 16 GB (std::string temporaries with symbolic contents inside path parsing).  The path laws are therefore outside this claim.
    return qs
