from engine import Query

ASSUMPTIONS = ["pictures: 8 bit, 32 wide, height 0/32 (64 in the thorough tier), either orientation; all 256 palette entries and every pixel byte symbolic",
               "the PBMP section length is taken as file length - 28 (the relation the writer documents); every other constant comes from the format description in the harness"]
OUTSIDE = ["heights above 64", "streams other than MemoryReader/MemoryWriter"]
LEVEL_TEXT = ("Bounded model checking of the real tileset writer and loader: every palette and pixel content of each shape through both storage formats, the written bytes against a field-by-field description of the custom format, "
              "the detector for all 2^32 signatures at every start position.")
LEVEL_NOTE = "Refusal queries cover depth, width and height violations on both the save and the load path."


def queries(tier):
    qs = []
    for th in ([0, 32] if tier == "quick" else [0, 32, 64]):
        for o in (0, 1):
            uw = 1100 + 32 * th + 60
            if tier == "quick" and (th, o) not in ((32, 0), (0, 1)):
                continue
            qs.append(Query("custom_h%d_%s" % (th, "topdown" if o else "bottomup"), "C09_tileset.cpp", "h_custom_roundtrip", {"TH": th, "ORIENT": o}, unwind=uw, timeout=1500, max_alloc=1 << 16,
                            desc="picture 32x%d (%s), symbolic palette and pixels: custom-format bytes match the format description; loading returns the same picture top-down with identical colours" % (th, "top-down" if o else "bottom-up")))
            qs.append(Query("custom_format_h%d_%s" % (th, "topdown" if o else "bottomup"), "C09_tileset.cpp", "h_custom_roundtrip", {"TH": th, "ORIENT": o, "FORMAT_ONLY": 1}, unwind=uw, timeout=1500, max_alloc=1 << 16,
                            desc="the writer half alone: custom-format bytes of the 32x%d picture match the format description (decides quickly even when the round trip does not)" % th))
            if tier == "quick" and (th, o) != (32, 0):
                continue
            qs.append(Query("standard_h%d_%s" % (th, "topdown" if o else "bottomup"), "C09_tileset.cpp", "h_standard_roundtrip", {"TH": th, "ORIENT": o}, unwind=uw, timeout=1500, max_alloc=1 << 16,
                            desc="the same picture stored as a standard bitmap loads to the same picture through the format-detecting loader"))
    qs.append(Query("peek_detector", "C09_tileset.cpp", "h_peek", {}, unwind=12, desc="PeekIsCustomTileset for every 8-byte stream and start position 0..4: result is exactly 'leading bytes == PBMP', position unchanged"))
    for v, vn in enumerate(["depth 4", "width 31", "height 33"]):
        qs.append(Query("refuse_save_%d" % v, "C09_tileset.cpp", "h_refuse_save", {"VIOL": v}, unwind=1200, timeout=900, desc="saving a picture with %s is refused" % vn))
        qs.append(Query("refuse_load_%d" % v, "C09_tileset.cpp", "h_refuse_load", {"VIOL": v, "TH": 32}, unwind=1200, timeout=900, desc="loading a custom tileset with %s is refused" % vn))
    return qs
