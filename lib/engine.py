"""Solver-based checking engine: /repo sources -> clang IR -> ir2c -> C -> CBMC, with native replay.

Everything is rebuilt from /repo's current working tree on every run (the only cache is keyed by the SHA-256 of
every file under /repo/src plus the flags and the engine sources, so an edited tree never reuses stale output).
"""
import hashlib, json, os, re, shutil, subprocess, sys, time, resource, threading, signal
from concurrent.futures import ThreadPoolExecutor, as_completed
from dataclasses import dataclass, field

VERIF = os.path.dirname(os.path.dirname(os.path.abspath(__file__)))
REPO = os.environ.get("VF_REPO", "/repo")
SRC = os.path.join(REPO, "src")
ENGINE = os.path.join(VERIF, "engine")
STUBS = os.path.join(VERIF, "stubs")
HARNESS = os.path.join(VERIF, "harness")
CACHE = os.path.join(VERIF, ".cache")
WORKROOT = os.path.join(VERIF, ".work")
REPLAYS = os.path.join(VERIF, "replays")

CLANG = "clang++-14"
IRFLAGS = ["-std=c++17", "-O1", "-fno-pic", "-fno-access-control", "-fno-vectorize", "-fno-slp-vectorize", "-fno-unroll-loops",
           "-fsanitize=shift,signed-integer-overflow,integer-divide-by-zero,bounds,unreachable,return",
           "-fsanitize-trap=all", "-I" + STUBS, "-I" + SRC, "-I" + HARNESS, "-S", "-emit-llvm", "-w"]
NATFLAGS = ["-std=c++17", "-O1", "-g", "-fno-access-control", "-fsanitize=address,undefined",
            "-fno-sanitize=nonnull-attribute,vptr,alignment", "-fno-sanitize-recover=all", "-fno-omit-frame-pointer",
            "-I" + SRC, "-I" + HARNESS, "-w",
            # abs(INT_MIN) is undefined but no clang-14 sanitizer reports it: route the builtin through a checking function (engine/vf_abs.h)
            "-fno-builtin-abs", "-fno-builtin-labs", "-fno-builtin-llabs",
            "-include", os.path.join(ENGINE, "vf_abs.h"), "-D__builtin_abs=vf_checked_abs", "-D__builtin_labs=vf_checked_labs", "-D__builtin_llabs=vf_checked_llabs"]
# message formatting is cut (returns ""), std::string::_M_replace is wrapped by the runtime (see DESIGN 1.2/1.3)
IR2C_BASE = ["--emptystr", "_ZNSt7__cxx119to_string", "--emptystr", "_ZStpl", "--emptystr", "_ZN10OP2Utility13StringUtility10StringFrom", "--keep-in", "_ZN10OP2Utility5XFile13PathsAreEqual",
             "--rename", "_ZNSt7__cxx1112basic_stringIcSt11char_traitsIcESaIcEE10_M_replaceEmmPKcm=__vf_real_M_replace"]
RTGLOBALS = ["_ZTISt9exception", "_ZTISt13runtime_error", "_ZTISt11logic_error", "_ZTISt12length_error", "_ZTISt9bad_alloc",
             "_ZTISt12out_of_range", "_ZTISt16invalid_argument", "_ZTISt20bad_array_new_length"]
# repo translation units that are never given to the solver
EXCLUDE_TUS = set()

NCPU = os.cpu_count() or 4


@dataclass
class Query:
    name: str
    harness: str                    # file under /verif/harness
    entry: str                      # extern "C" entry function
    defines: dict = field(default_factory=dict)
    unwind: int = 12
    unwindset: dict = field(default_factory=dict)
    exc: str = "cut"                # "cut": a throw runs vf_at_throw() and ends the path; "full": real unwinding
    max_alloc: int = 1 << 16
    vfs_n: int = 4
    vfs_cap: int = 128
    timeout: int = 300
    fs_array: int = 4096
    object_bits: int = 12
    redirects: dict = field(default_factory=dict)
    ir2c_opts: list = field(default_factory=list)
    cbmc_opts: list = field(default_factory=list)
    native: bool = True             # can be replayed against the real build
    native_redirects: dict = field(default_factory=dict)   # symbols the harness overrides in the native replay build as well (the defining object is linked with that symbol weakened)
    desc: str = ""                  # what this query covers, in words (goes to evidence samples)
    opt: str = "-O1"
    expect_witness: bool = True
    hunt: bool = False              # additionally run a cheap under-approximating hunt first
    mem_gb: int = 16


def sh(cmd, **kw):
    return subprocess.run(cmd, stdout=subprocess.PIPE, stderr=subprocess.STDOUT, text=True, **kw)


def tree_hash():
    h = hashlib.sha256()
    for root, dirs, files in os.walk(SRC):
        dirs.sort()
        for f in sorted(files):
            p = os.path.join(root, f)
            h.update(os.path.relpath(p, SRC).encode()); h.update(b"\0")
            with open(p, "rb") as fp:
                h.update(fp.read())
            h.update(b"\0")
    for d in (ENGINE, STUBS, os.path.join(STUBS, "experimental")):
        for f in sorted(os.listdir(d)):
            p = os.path.join(d, f)
            if os.path.isfile(p):
                h.update(f.encode())
                with open(p, "rb") as fp:
                    h.update(fp.read())
    h.update(" ".join(IRFLAGS + NATFLAGS).encode())
    return h.hexdigest()[:20]


def repo_tus():
    out = []
    for root, dirs, files in os.walk(SRC):
        dirs.sort()
        for f in sorted(files):
            if f.endswith(".cpp"):
                rel = os.path.relpath(os.path.join(root, f), SRC)
                if rel not in EXCLUDE_TUS:
                    out.append(rel)
    return out


class BuildError(Exception):
    pass


def ensure_ir2c():
    """Build the translator (setup does this; the checks rebuild it when its source is newer)."""
    exe = os.path.join(ENGINE, "ir2c")
    src = os.path.join(ENGINE, "ir2c.cpp")
    if os.path.exists(exe) and os.path.getmtime(exe) >= os.path.getmtime(src):
        return exe
    cxx = sh(["llvm-config-14", "--cxxflags"]).stdout.split()
    ld = sh(["llvm-config-14", "--ldflags"]).stdout.split()
    r = sh(["g++", "-O1", "-o", exe + ".tmp", src] + cxx + ["-fexceptions"] + ld + ["-lLLVM-14"])
    if r.returncode != 0:
        raise BuildError("ir2c build failed:\n" + r.stdout)
    os.replace(exe + ".tmp", exe)
    return exe


_build_lock = threading.Lock()


def prepare_tree(log=print):
    """Compile every repo TU to LLVM IR (for the solver) and to a sanitizer-instrumented native library (for replay).
    Returns the cache directory for the current tree."""
    ensure_ir2c()
    key = tree_hash()
    d = os.path.join(CACHE, key)
    done = os.path.join(d, "DONE")
    if os.path.exists(done):
        os.utime(done)
        return d
    with _build_lock:
        if os.path.exists(done):
            return d
        t0 = time.time()
        tmp = d + ".tmp%d" % os.getpid()
        shutil.rmtree(tmp, ignore_errors=True)
        os.makedirs(os.path.join(tmp, "ll")); os.makedirs(os.path.join(tmp, "obj"))
        tus = repo_tus()
        jobs = []
        for tu in tus:
            base = tu.replace("/", "_")[:-4]
            jobs.append(([CLANG] + IRFLAGS + [os.path.join(SRC, tu), "-o", os.path.join(tmp, "ll", base + ".ll")], tu))
            jobs.append(([CLANG] + NATFLAGS + ["-c", os.path.join(SRC, tu), "-o", os.path.join(tmp, "obj", base + ".o")], tu))
        errs = []
        with ThreadPoolExecutor(NCPU) as ex:
            for r, (cmd, tu) in zip(ex.map(lambda j: sh(j[0]), jobs), jobs):
                if r.returncode != 0:
                    errs.append("%s: %s\n%s" % (tu, " ".join(cmd), r.stdout))
        if errs:
            shutil.rmtree(tmp, ignore_errors=True)
            raise BuildError("repository does not compile:\n" + "\n".join(errs[:3]))
        objs = sorted(os.path.join(tmp, "obj", f) for f in os.listdir(os.path.join(tmp, "obj")))
        r = sh(["ar", "rcs", os.path.join(tmp, "libop2_native.a")] + objs)
        if r.returncode != 0:
            raise BuildError(r.stdout)
        shutil.rmtree(os.path.join(tmp, "obj"))
        # one linked module of the whole library
        lls = sorted(os.path.join(tmp, "ll", f) for f in os.listdir(os.path.join(tmp, "ll")))
        r = sh(["llvm-link-14", "-o", os.path.join(tmp, "repo.bc")] + lls)
        if r.returncode != 0:
            raise BuildError("llvm-link of repo failed:\n" + r.stdout)
        open(os.path.join(tmp, "DONE"), "w").write(str(time.time() - t0))
        shutil.rmtree(d, ignore_errors=True)
        os.rename(tmp, d)
        # evict old trees (keep the 10 most recent, never one used in the last hour: concurrent checks of other trees may be running)
        ents = sorted((e for e in os.listdir(CACHE) if os.path.exists(os.path.join(CACHE, e, "DONE"))),
                      key=lambda e: os.path.getmtime(os.path.join(CACHE, e, "DONE")), reverse=True)
        for e in ents[10:]:
            if time.time() - os.path.getmtime(os.path.join(CACHE, e, "DONE")) > 3600:
                shutil.rmtree(os.path.join(CACHE, e), ignore_errors=True)
        log("[engine] compiled %d translation units of %s to IR and native objects in %.1fs" % (len(tus), REPO, time.time() - t0))
    return d


def _limits(mem_gb):
    def f():
        os.setsid()
        lim = mem_gb << 30
        resource.setrlimit(resource.RLIMIT_AS, (lim, lim))
    return f


_live = set()
_live_lock = threading.Lock()


def _kill_all(signum=None, frame=None):
    """SIGTERM/SIGINT handler of the driver: the solver processes run in their own sessions, so take them down explicitly."""
    with _live_lock:
        for p in list(_live):
            try:
                os.killpg(p.pid, signal.SIGKILL)
            except Exception:
                pass
    if signum is not None:
        os._exit(130)


STOP = False


def kill_running():
    """Stop the solver processes that are running now (fail-fast); their queries come back as inconclusive."""
    global STOP
    STOP = True
    _kill_all()


def install_signal_handlers():
    signal.signal(signal.SIGTERM, _kill_all)
    signal.signal(signal.SIGINT, _kill_all)


def run_limited(cmd, timeout, mem_gb=16, cwd=None, env=None, outfile=None):
    """Run a command in its own session with an address-space limit; output goes to outfile.
    Returns (rc, seconds, timed_out, maxrss_kb, None)."""
    t0 = time.time()
    tf = outfile + ".time"
    with open(outfile, "w") as out:
        p = subprocess.Popen(["/usr/bin/time", "-f", "VFTIME %e %M", "-o", tf] + cmd, stdout=out, stderr=subprocess.STDOUT,
                             cwd=cwd, env=env, preexec_fn=_limits(mem_gb))
        with _live_lock:
            _live.add(p)
        to = False
        try:
            p.wait(timeout=timeout)
        except subprocess.TimeoutExpired:
            to = True
            try:
                os.killpg(p.pid, signal.SIGKILL)
            except ProcessLookupError:
                pass
            p.wait()
        with _live_lock:
            _live.discard(p)
    rss = 0
    if os.path.exists(tf):
        m = re.search(r"VFTIME (\S+) (\d+)", open(tf).read())
        if m:
            rss = int(m.group(2))
    return p.returncode, time.time() - t0, to, rss, None


RES_RE = re.compile(r"^\[(\S+)\] (?:line (\d+) )?(.*): (SUCCESS|FAILURE|UNKNOWN|ERROR)$")
STATE_RE = re.compile(r"^State \d+ file (\S+) function (\S+) line (\d+)")
NONDET_FUNCS = {"vf_nondet_u8", "vf_nondet_u16", "vf_nondet_u32", "vf_nondet_u64", "vf_havoc"}
XVAL_RE = re.compile(r"^  x=(-?\d+)\w* \(([01 ]+)\)")


def parse_cbmc(path):
    """Parse CBMC's plain output: per-property results, per-failed-property nondet draw sequences, statistics."""
    res = {"props": {}, "traces": {}, "stats": {}, "verdict": None, "errors": []}
    cur_trace = None
    cur_fn = None
    with open(path, errors="replace") as fp:
        for line in fp:
            if line.startswith("Unwinding loop") or line.startswith("aborting path"):
                continue
            line = line.rstrip("\n")
            if line.startswith("Not unwinding loop "):
                parts = line.split()
                if len(parts) > 3:
                    res["stats"].setdefault("loops_at_bound", set()).add(parts[3])
                continue
            if cur_trace is None or line.startswith("["):
                m = RES_RE.match(line)
                if m:
                    res["props"][m.group(1)] = {"line": m.group(2), "desc": m.group(3), "status": m.group(4)}
                    continue
            if line.startswith("VERIFICATION "):
                res["verdict"] = line.split()[1]
                continue
            if line.startswith("Trace for "):
                cur_trace = line[len("Trace for "):].rstrip(":")
                res["traces"][cur_trace] = []
                cur_fn = None
                continue
            if cur_trace is not None:
                m = STATE_RE.match(line)
                if m:
                    cur_fn = m.group(2)
                    continue
                if cur_fn in NONDET_FUNCS:
                    m = XVAL_RE.match(line)
                    if m:
                        res["traces"][cur_trace].append(int(m.group(2).replace(" ", ""), 2))
                        continue
                if line.startswith("Violated property:"):
                    cur_fn = None
                continue
            if line.startswith("size of program expression:"):
                res["stats"]["steps"] = int(line.split(":")[1].split()[0])
            elif line.startswith("Generated "):
                m = re.match(r"Generated (\d+) VCC\(s\), (\d+) remaining", line)
                if m:
                    res["stats"]["vccs"] = int(m.group(1)); res["stats"]["vccs_remaining"] = int(m.group(2))
            elif line.startswith("Runtime Symex:"):
                res["stats"]["symex_s"] = float(line.split(":")[1].strip().rstrip("s"))
            elif line.startswith("Runtime decision procedure:"):
                res["stats"]["solver_s"] = res["stats"].get("solver_s", 0.0) + float(line.split(":")[1].strip().rstrip("s"))
            elif re.match(r"^\d+ variables, \d+ clauses", line):
                m = re.match(r"^(\d+) variables, (\d+) clauses", line)
                res["stats"]["sat_vars"] = int(m.group(1)); res["stats"]["sat_clauses"] = int(m.group(2))
            elif line.startswith("VERIFICATION "):
                res["verdict"] = line.split()[1]
            elif "PARSING ERROR" in line or "CONVERSION ERROR" in line or line.startswith("Out of memory") or "std::bad_alloc" in line or "Invariant check failed" in line:
                res["errors"].append(line)
    return res


def demangle(names):
    if not names:
        return {}
    r = subprocess.run(["c++filt"], input="\n".join(names), stdout=subprocess.PIPE, text=True)
    return dict(zip(names, r.stdout.split("\n")))


class QueryResult(dict):
    pass


def defs_list(q):
    return ["-D%s=%s" % (k, v) if v is not None else "-D%s" % k for k, v in sorted(q.defines.items())]


def run_query(q, tree, workdir, log, do_replay_witness=True):
    """Full pipeline for one query.  Returns a dict with status in
       held | violation | unconfirmed | inconclusive | error."""
    t0 = time.time()
    qd = os.path.join(workdir, re.sub(r"[^A-Za-z0-9_.-]", "_", q.name))
    os.makedirs(qd, exist_ok=True)
    R = QueryResult(name=q.name, desc=q.desc, status="error", detail="", unwind=q.unwind, timeout=q.timeout,
                    harness=q.harness, entry=q.entry, defines=q.defines, exc=q.exc, max_alloc=q.max_alloc,
                    failures=[], witness=None, stats={}, functions=[], wall_s=0.0, replays=[])
    try:
        D = defs_list(q) + ["-DVFS_N=%d" % q.vfs_n, "-DVFS_CAP=%d" % q.vfs_cap, "-DVF_MAX_ALLOC=%d" % q.max_alloc]
        hsrc = os.path.join(HARNESS, q.harness)
        flags = [f if f != "-O1" else q.opt for f in IRFLAGS]
        r = sh([CLANG] + flags + D + ["-DVF_CBMC", hsrc, "-o", os.path.join(qd, "h.ll")])
        if r.returncode != 0:
            R["detail"] = "harness does not compile:\n" + r.stdout[-3000:]
            return R
        r = sh(["llvm-link-14", "-o", os.path.join(qd, "all.bc"), os.path.join(qd, "h.ll"), os.path.join(tree, "repo.bc")])
        if r.returncode != 0:
            R["detail"] = "llvm-link failed:\n" + r.stdout[-3000:]
            return R
        opts = list(IR2C_BASE)
        for g in RTGLOBALS:
            opts += ["--rtglobal", g]
        for a, b in q.redirects.items():
            opts += ["--redirect", "%s=%s" % (a, b)]
        opts += q.ir2c_opts
        r = sh([os.path.join(ENGINE, "ir2c"), os.path.join(qd, "all.bc"), os.path.join(qd, "gen.c"), "--root", q.entry, "--root", "vf_at_throw",
                "--funcs", os.path.join(qd, "funcs.txt")] + opts)
        if r.returncode != 0:
            R["detail"] = "ir2c failed:\n" + r.stdout[-3000:]
            return R
        R["functions"] = [l.strip() for l in open(os.path.join(qd, "funcs.txt")) if l.strip()]
        open(os.path.join(qd, "main.c"), "w").write(
            "void __vf_global_ctors(void); void %s(void);\nvoid vf_main(void){ __vf_global_ctors(); %s(); }\n" % (q.entry, q.entry))
        cdefs = ["-DVFS_N=%d" % q.vfs_n, "-DVFS_CAP=%d" % q.vfs_cap, "-DVF_MAX_ALLOC=%d" % q.max_alloc]
        if q.exc == "cut":
            cdefs.append("-DVF_EXC_CUT")
        r = sh(["goto-cc", "-I" + ENGINE] + cdefs + ["-o", os.path.join(qd, "q.gb"), os.path.join(qd, "gen.c"), os.path.join(ENGINE, "rt.c"),
                os.path.join(ENGINE, "vfs.c"), os.path.join(qd, "main.c"), "--function", "vf_main"])
        if r.returncode != 0 or not os.path.exists(os.path.join(qd, "q.gb")):
            R["detail"] = "goto-cc failed:\n" + r.stdout[-3000:]
            return R
        base = ["cbmc", os.path.join(qd, "q.gb"), "--drop-unused-functions", "--no-malloc-may-fail", "--object-bits", str(q.object_bits),
                "--max-field-sensitivity-array-size", str(q.fs_array), "--trace", "--verbosity", "8", "--unwindset", "vf_havoc.0:70000"]
        uset = ",".join("%s:%d" % (k, v) for k, v in q.unwindset.items())
        if uset:
            base += ["--unwindset", uset]
        base += q.cbmc_opts

        def classify(parsed):
            fails = []
            witness = None
            for pid, p in parsed["props"].items():
                if p["status"] != "FAILURE":
                    continue
                if p["desc"].endswith("WITNESS"):
                    witness = pid
                    continue
                fails.append(pid)
            return fails, witness

        if STOP:
            R["status"] = "inconclusive"; R["detail"] = "stopped: a violation had already been confirmed in another query"
            return R
        parsed = None
        if q.hunt:
            out = os.path.join(qd, "hunt.txt")
            rc, secs, to, rss, _ = run_limited(base + ["--unwind", str(min(q.unwind, 20))], min(q.timeout, 120), q.mem_gb, outfile=out)
            hp = parse_cbmc(out)
            hf, _ = classify(hp)
            hf = [f for f in hf if ".unwind." not in f]
            if hf and not to:
                parsed = hp
                parsed["mode"] = "hunt"
                hp["stats"]["loops_at_bound"] = sorted(hp["stats"].get("loops_at_bound", []))
                R["stats"] = dict(hp["stats"], cbmc_wall_s=secs, maxrss_kb=rss, mode="hunt")
        if parsed is None:
            out = os.path.join(qd, "cbmc.txt")
            rc, secs, to, rss, _ = run_limited(base + ["--unwind", str(q.unwind), "--unwinding-assertions"], q.timeout, q.mem_gb, outfile=out)
            parsed = parse_cbmc(out)
            parsed["mode"] = "bound"
            parsed["stats"]["loops_at_bound"] = sorted(parsed["stats"].get("loops_at_bound", []))
            R["stats"] = dict(parsed["stats"], cbmc_wall_s=secs, maxrss_kb=rss, mode="bound")
            if to:
                R["status"] = "inconclusive"; R["detail"] = "cbmc timed out after %ds" % q.timeout
                return R
            if parsed["verdict"] == "ERROR":
                tail = "".join(l for l in open(out, errors="replace").readlines()[-400:] if "memory" in l or "ERROR" in l and not l.startswith("["))
                R["status"] = "inconclusive"; R["detail"] = "cbmc: VERIFICATION ERROR (solver failure / out of memory): " + tail[:300]
                return R
            if parsed["verdict"] is None:
                tail = "".join(open(out, errors="replace").readlines()[-15:])
                R["status"] = "inconclusive" if ("bad_alloc" in tail or rc in (-9, 137, -6, 134)) else "error"
                R["detail"] = "cbmc gave no verdict (rc=%s):\n%s" % (rc, tail)
                return R
        fails, witness = classify(parsed)
        R["n_properties"] = len(parsed["props"])
        R["witness"] = witness is not None
        dm = demangle(sorted({f.split(".")[0] for f in fails}))
        unwind_fails = [f for f in fails if ".unwind." in f]
        real_fails = [f for f in fails if ".unwind." not in f]
        for f in fails:
            p = parsed["props"][f]
            R["failures"].append({"id": f, "desc": p["desc"], "line": p["line"], "function": dm.get(f.split(".")[0], f.split(".")[0])})
        # --- native replay
        nat = None
        if q.native and (fails or (witness and do_replay_witness)):
            nat = build_native(q, tree, qd)
            if nat is None:
                R["detail"] = "native harness build failed: " + open(os.path.join(qd, "native_build.txt")).read()[-2000:]
                R["status"] = "error"
                return R
        if witness and q.native and do_replay_witness:
            rp = replay(q, nat, parsed["traces"].get(witness, []), qd, "witness")
            R["witness_replay"] = rp
        confirmed = []
        unconfirmed = []
        for f in real_fails + unwind_fails:
            p = parsed["props"][f]
            if not q.native:
                unconfirmed.append((f, "no native replay for this harness (IR-level stubs)"))
                continue
            rp = replay(q, nat, parsed["traces"].get(f, []), qd, re.sub(r"\W", "_", f)[-60:])
            R["replays"].append({"property": f, **{k: rp[k] for k in ("outcome", "detail", "replay_file")}})
            want = p["desc"]
            if ".unwind." in f:
                ok = rp["outcome"] in ("sanitizer", "hang")
            elif want.startswith("VF "):
                what = want.split(": ", 1)[1] if ": " in want else want
                # any property assertion failing natively on the solver's inputs is a real violation (in cut mode the solver stops at the
                # throw hook, natively the harness's own handler may report the same fault through a later assertion)
                ok = rp["outcome"] in ("assert", "sanitizer", "uncaught", "hang")
            else:
                ok = rp["outcome"] in ("sanitizer", "assert", "uncaught", "hang")
            (confirmed if ok else unconfirmed).append((f, rp))
            if len(confirmed) >= 3:
                break
        R["confirmed"] = [{"property": f, "desc": parsed["props"][f]["desc"], "replay": rp["replay_file"], "native": rp["outcome"] + ": " + rp["detail"]} for f, rp in confirmed]
        R["unconfirmed"] = [{"property": f, "desc": parsed["props"][f]["desc"], "why": (rp if isinstance(rp, str) else rp["outcome"] + ": " + rp["detail"])} for f, rp in unconfirmed]
        if confirmed:
            R["status"] = "violation"
        elif real_fails or unwind_fails:
            R["status"] = "unconfirmed" if real_fails else "inconclusive"
            R["detail"] = "counterexample(s) did not reproduce natively" if real_fails else "unwinding bound too small: " + ", ".join(unwind_fails[:3])
        elif q.expect_witness and not witness:
            R["status"] = "error"; R["detail"] = "vacuous: reachability witness not reached"
        elif witness and q.native and do_replay_witness and R["witness_replay"]["outcome"] != "witness":
            R["status"] = "error"; R["detail"] = "witness trace does not replay against the real build: %s %s" % (R["witness_replay"]["outcome"], R["witness_replay"]["detail"])
        else:
            R["status"] = "held"
        return R
    except Exception as e:  # noqa
        import traceback
        R["detail"] = "engine exception: " + traceback.format_exc()
        return R
    finally:
        R["wall_s"] = round(time.time() - t0, 2)
        if R["status"] == "held" and not os.environ.get("VF_KEEP"):
            shutil.rmtree(qd, ignore_errors=True)


def build_native(q, tree, qd):
    exe = os.path.join(qd, "native")
    D = defs_list(q) + ["-DVFS_N=%d" % q.vfs_n, "-DVFS_CAP=%d" % q.vfs_cap, "-DVF_MAX_ALLOC=%d" % q.max_alloc, "-DVF_ENTRY=" + q.entry, "-DVF_NATIVE"]
    extra, log = [], ""
    lib = os.path.join(tree, "libop2_native.a")
    for sym in q.native_redirects:
        # the real object that defines `sym`, with that one symbol weakened so the harness's definition (declared under the same
        # assembler name when VF_NATIVE is set) takes its place; all other code of the object is the real build's
        nm = sh(["nm", "-A", "--defined-only", lib]).stdout
        members = sorted({l.split(":")[1] for l in nm.splitlines() if l.rstrip().endswith(" " + sym) and " T " in l})
        if len(members) != 1:
            open(os.path.join(qd, "native_build.txt"), "w").write("native redirect: %s defined in %s" % (sym, members)); return None
        obj = os.path.join(qd, "nr_" + members[0])
        if not os.path.exists(obj):
            sh(["ar", "x", lib, members[0]], cwd=qd); os.replace(os.path.join(qd, members[0]), obj)
        log += sh(["objcopy", "--weaken-symbol=" + sym, obj]).stdout
        rel = sh(["objdump", "-r", obj]).stdout
        if sym not in rel:      # the call was inlined in the native object: the override would not take effect
            open(os.path.join(qd, "native_build.txt"), "w").write("native redirect: no relocated call to %s in %s" % (sym, members[0])); return None
        if obj not in extra: extra.append(obj)
    r = sh([CLANG] + NATFLAGS + D + [os.path.join(HARNESS, q.harness), os.path.join(ENGINE, "vf_native.cpp")] + extra + [lib, "-lstdc++fs", "-o", exe])
    open(os.path.join(qd, "native_build.txt"), "w").write(log + r.stdout)
    return exe if r.returncode == 0 else None


def replay(q, exe, values, qd, tag, keep_file=None):
    """Run the natively built harness on the draw sequence of a CBMC trace."""
    rf = os.path.join(qd, tag + ".replay")
    with open(rf, "w") as fp:
        fp.write("# query=%s harness=%s entry=%s defines=%s\n" % (q.name, q.harness, q.entry, json.dumps(q.defines, sort_keys=True)))
        for v in values:
            fp.write("%d\n" % v)
    return run_native(exe, rf, qd, tag)


def run_native(exe, rf, qd, tag):
    scratch = os.path.join(qd, "scratch_" + tag)
    shutil.rmtree(scratch, ignore_errors=True); os.makedirs(scratch)
    vals = os.path.join(qd, tag + ".vals")
    with open(vals, "w") as fp:
        for l in open(rf):
            if not l.startswith("#"):
                fp.write(l)
    env = dict(os.environ, VF_REPLAY=vals, VF_SCRATCH=scratch, ASAN_OPTIONS="detect_leaks=0:abort_on_error=0:allocator_may_return_null=1:max_allocation_size_mb=4096",
               UBSAN_OPTIONS="print_stacktrace=1")
    t0 = time.time()
    try:
        p = subprocess.run([exe], stdout=subprocess.PIPE, stderr=subprocess.STDOUT, text=True, errors="replace", env=env, timeout=20, cwd=scratch)
        out, rc = p.stdout, p.returncode
    except subprocess.TimeoutExpired as e:
        shutil.rmtree(scratch, ignore_errors=True)
        return {"outcome": "hang", "detail": "no return within 20 s", "replay_file": rf, "output": ""}
    shutil.rmtree(scratch, ignore_errors=True)
    outcome, detail = "other", "rc=%d" % rc
    m = re.search(r"VF-ASSERT-FAIL: (.*)", out)
    if "ERROR: AddressSanitizer" in out or "runtime error:" in out:
        outcome = "sanitizer"
        mm = re.search(r"(ERROR: AddressSanitizer: [^\n]*|[^\n]*runtime error: [^\n]*)", out)
        detail = mm.group(1).strip() if mm else ""
    elif m:
        outcome, detail = "assert", m.group(1).strip()
    elif "VF-WITNESS" in out:
        outcome, detail = "witness", ""
    elif "VF-ASSUME-FAIL" in out:
        outcome, detail = "assume-failed", "the trace does not satisfy the harness assumptions natively"
    elif "VF-END" in out or "VF-RETURN" in out:
        outcome, detail = "completed", "VF-END" if "VF-END" in out else "VF-RETURN"
    elif "terminate called" in out or rc in (-6, 134):
        outcome = "uncaught"
        mm = re.search(r"what\(\):\s*(.*)", out)
        detail = mm.group(1) if mm else "std::terminate"
    elif rc in (-11, 139):
        outcome, detail = "sanitizer", "SIGSEGV"
    if "VF-REPLAY-EXHAUSTED" in out:
        detail += " [replay values exhausted]"
    return {"outcome": outcome, "detail": detail, "replay_file": rf, "output": out[-4000:]}
