#!/bin/sh
# Offline setup: builds the IR->C translator from source against the installed LLVM 14 and checks the tools.
set -e
cd "$(dirname "$0")"
for t in clang++-14 llvm-link-14 llvm-config-14 goto-cc cbmc g++ c++filt python3; do command -v $t >/dev/null || { echo "missing tool: $t"; exit 1; }; done
g++ -O1 -o engine/ir2c engine/ir2c.cpp $(llvm-config-14 --cxxflags) -fexceptions $(llvm-config-14 --ldflags) -lLLVM-14
mkdir -p evidence replays .work .cache
echo "setup ok"
